//! C16 (1) — the FNV-1a kernel, and (3) sensitivity of a single step, decided for ALL states/bytes.
//!
//! Composition: part (2) (shapes_gen.rs, `c16_*_stream_*`) shows both walkers feed `hash_update` exactly
//! path ++ documented tag-and-name stream; this file shows `hash_update(state, bytes)` IS the FNV-1a left
//! fold of that stream from ANY state, that the chain starts at the FNV offset basis and that the digest is
//! little-endian.  Hence key == FNV-1a-64(path ++ stream) for every path/name LENGTH (the kernel claim has
//! no length bound beyond the 8 bytes per call checked here, and calls compose by the arbitrary-state form).
use crate::shapes::{ref_fnv, Path, REF_BASIS, REF_PRIME};
use postcard_schema::key::hash::{fnv1a64, fnv1a64_owned, Fnv1a64Hasher};
use postcard_schema::schema::owned::OwnedDataModelType;

fn step(s: u64, b: u8) -> u64 {
    (s ^ b as u64).wrapping_mul(0x0000_0100_0000_01b3)
}

#[kani::proof]
#[kani::unwind(10)]
//@ tier=quick class=core cap=600 bounds="every state u64 x every byte slice of 0..=8 bytes: hash_update == left fold of (s ^ b) * prime" hooks=H2
fn c16_kernel_update_is_fnv_fold() {
    let state: u64 = kani::any();
    let bytes: [u8; 8] = kani::any();
    let n: usize = kani::any();
    kani::assume(n <= 8);
    let got = fnv1a64::verif_hash_update(state, &bytes[..n]);
    let mut want = state;
    let mut i = 0;
    while i < n {
        want = step(want, bytes[i]);
        i += 1;
    }
    assert!(got == want, "hash_update is not the FNV-1a fold");
    kani::cover!(n == 8, "8 bytes reachable");
}

#[kani::proof]
#[kani::unwind(10)]
//@ tier=quick class=core cap=600 bounds="Fnv1a64Hasher: new() is the offset basis; one update over any 0..=8 bytes is the fold; digest_bytes is little-endian"
fn c16_kernel_hasher_struct() {
    let bytes: [u8; 8] = kani::any();
    let n: usize = kani::any();
    kani::assume(n <= 8);
    let mut h = Fnv1a64Hasher::new();
    h.update(&bytes[..n]);
    let mut want: u64 = 0xcbf2_9ce4_8422_2325;
    let mut i = 0;
    while i < n {
        want = step(want, bytes[i]);
        i += 1;
    }
    let d = h.digest_bytes();
    assert!(d == want.to_le_bytes(), "Fnv1a64Hasher differs from FNV-1a 64 / digest not little-endian");
    let h2 = Fnv1a64Hasher::default();
    assert!(h2.digest() == 0xcbf2_9ce4_8422_2325);
    kani::cover!(n == 8, "8 bytes reachable");
}

#[kani::proof]
#[kani::unwind(4)]
//@ tier=quick class=core cap=1800 bounds="Fnv1a64Hasher: two successive updates of 0..=2 bytes each continue from the previous state"
fn c16_kernel_hasher_two_updates() {
    let a: [u8; 2] = kani::any();
    let b: [u8; 2] = kani::any();
    let la: usize = kani::any();
    let lb: usize = kani::any();
    kani::assume(la <= 2 && lb <= 2);
    let mut h = Fnv1a64Hasher::new();
    h.update(&a[..la]);
    h.update(&b[..lb]);
    let mut want: u64 = 0xcbf2_9ce4_8422_2325;
    let mut i = 0;
    while i < la {
        want = step(want, a[i]);
        i += 1;
    }
    let mut i = 0;
    while i < lb {
        want = step(want, b[i]);
        i += 1;
    }
    assert!(h.digest() == want);
    kani::cover!(la == 2 && lb == 2, "reached");
}

#[kani::proof]
#[kani::unwind(10)]
//@ tier=quick class=core cap=1800 bounds="leaf schema U8 x every path of 0..=3 UTF-8 bytes through BOTH public constructors: chain starts at the basis, digest little-endian, both agree"
fn c16_leaf_both_constructors() {
    let path = Path::any();
    let want = step(ref_fnv(REF_BASIS, path.bytes()), 0x3D).to_le_bytes();
    let k_const = postcard_schema::key::Key::for_path::<u8>(path.as_str());
    let k_owned = postcard_schema::key::Key::for_owned_schema_path(path.as_str(), &OwnedDataModelType::U8);
    assert!(k_const.to_bytes() == want, "compile-time key of a leaf differs from FNV-1a(path ++ tag)");
    assert!(k_owned.to_bytes() == want, "run-time key of a leaf differs from FNV-1a(path ++ tag)");
    kani::cover!(path.len == 3, "3-byte path reachable");
}

/// (3) a single substituted byte always changes the digest of the prefix ending at it, and a changed
/// prefix state is never healed by hashing the same next byte: xor-then-multiply-by-odd is a bijection on
/// the state for a fixed byte and injective in the byte for a fixed state.
#[kani::proof]
//@ tier=quick class=core cap=900 bounds="all states x all byte pairs b != b': step(s,b) != step(s,b')"
fn c16_step_injective_in_byte() {
    let s: u64 = kani::any();
    let b1: u8 = kani::any();
    let b2: u8 = kani::any();
    kani::assume(b1 != b2);
    let r1 = fnv1a64::verif_hash_update(s, &[b1]);
    let r2 = fnv1a64::verif_hash_update(s, &[b2]);
    assert!(r1 != r2, "two different bytes give the same next state");
    kani::cover!(b1 == 0x11 && b2 == 0xC5, "reached");
}

// Injectivity in the STATE for a fixed byte (s != s' => step(s,b) != step(s',b)) is the statement that
// multiplication by the odd FNV prime is a bijection mod 2^64 (inverse 0xce965057aff6957b).  A SAT back end
// does not decide that 64x64-bit multiplier identity (the query ran 30 min without a verdict), so it is an
// argument on paper, not a check; the byte-wise form above is decided.
