//! Kani harnesses over postcard-schema (C14, C15, C16, C19).
#![allow(dead_code, unused_imports, unused_macros, static_mut_refs, clippy::all)]
#![cfg_attr(kani, feature(allocator_api))]

#[path = "../../common/spec.rs"]
pub mod spec;

#[path = "../../common/arena.rs"]
pub mod arena;
pub mod lockstep;

#[cfg(kani)]
pub mod shapes;
#[cfg(kani)]
mod c14;
#[cfg(kani)]
mod shapes_gen;
#[cfg(kani)]
mod leaves;
#[cfg(kani)]
mod c16;
