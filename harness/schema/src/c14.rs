//! C14 — a type's Schema describes exactly what its Serialize writes.
use crate::lockstep::{conforms, reader_consumes};
use core::num::*;
use core::ops::{Range, RangeFrom, RangeInclusive, RangeTo};
use postcard_schema::Schema;
use serde::Serialize;

macro_rules! schema_ok {
    ($name:ident, $ty:ty, $unwind:literal, $mk:expr) => {
        #[kani::proof]
        #[kani::unwind($unwind)]
        fn $name() {
            let v: $ty = $mk;
            conforms(&v, <$ty as Schema>::SCHEMA);
            let mut buf = [0u8; 48];
            let n = reader_consumes(&v, <$ty as Schema>::SCHEMA, &mut buf);
            kani::cover!(n > 0 || core::mem::size_of::<$ty>() == 0, "reached");
            core::mem::forget(v);
        }
    };
}

//@ tier=quick class=core cap=120 bounds="all values"
schema_ok!(c14_bool, bool, 4, kani::any());
//@ tier=quick class=core cap=120 bounds="all values"
schema_ok!(c14_u8, u8, 4, kani::any());
//@ tier=thorough class=core cap=120 bounds="all values"
schema_ok!(c14_i8, i8, 4, kani::any());
//@ tier=quick class=core cap=120 bounds="all values"
schema_ok!(c14_u16, u16, 6, kani::any());
//@ tier=quick class=core cap=120 bounds="all values"
schema_ok!(c14_i16, i16, 6, kani::any());
//@ tier=thorough class=core cap=120 bounds="all values"
schema_ok!(c14_u32, u32, 8, kani::any());
//@ tier=quick class=core cap=120 bounds="all values"
schema_ok!(c14_i32, i32, 8, kani::any());
//@ tier=thorough class=core cap=240 bounds="all values"
schema_ok!(c14_u64, u64, 13, kani::any());
//@ tier=thorough class=core cap=240 bounds="all values"
schema_ok!(c14_i64, i64, 13, kani::any());
//@ tier=thorough class=core cap=300 bounds="all values"
schema_ok!(c14_u128, u128, 22, kani::any());
//@ tier=quick class=core cap=300 bounds="all values"
schema_ok!(c14_i128, i128, 22, kani::any());
//@ tier=quick class=core cap=120 bounds="all bit patterns"
schema_ok!(c14_f32, f32, 8, f32::from_bits(kani::any()));
//@ tier=thorough class=core cap=120 bounds="all bit patterns"
schema_ok!(c14_f64, f64, 12, f64::from_bits(kani::any()));
//@ tier=quick class=core cap=600 bounds="every char"
schema_ok!(c14_char, char, 8, kani::any());
//@ tier=thorough class=core cap=120 bounds="unit"
schema_ok!(c14_unit, (), 3, ());
//@ tier=thorough class=core cap=120 bounds="all values"
schema_ok!(c14_nz_u8, NonZeroU8, 4, kani::any());
//@ tier=thorough class=core cap=120 bounds="all values"
schema_ok!(c14_nz_i8, NonZeroI8, 4, kani::any());
//@ tier=quick class=core cap=120 bounds="all values"
schema_ok!(c14_nz_u16, NonZeroU16, 6, kani::any());
//@ tier=thorough class=core cap=120 bounds="all values"
schema_ok!(c14_nz_i16, NonZeroI16, 6, kani::any());
//@ tier=thorough class=core cap=120 bounds="all values"
schema_ok!(c14_nz_u32, NonZeroU32, 8, kani::any());
//@ tier=thorough class=core cap=120 bounds="all values"
schema_ok!(c14_nz_i32, NonZeroI32, 8, kani::any());
//@ tier=thorough class=core cap=240 bounds="all values"
schema_ok!(c14_nz_u64, NonZeroU64, 13, kani::any());
//@ tier=thorough class=core cap=240 bounds="all values"
schema_ok!(c14_nz_i64, NonZeroI64, 13, kani::any());
//@ tier=quick class=core cap=300 bounds="all values"
schema_ok!(c14_nz_u128, NonZeroU128, 22, kani::any());
//@ tier=thorough class=core cap=300 bounds="all values"
schema_ok!(c14_nz_i128, NonZeroI128, 22, kani::any());
//@ tier=thorough class=core cap=300 bounds="all (u8,)"
schema_ok!(c14_tuple1, (u8,), 4, kani::any());
//@ tier=thorough class=core cap=300 bounds="all (u8,i16)"
schema_ok!(c14_tuple2, (u8, i16), 6, kani::any());
//@ tier=thorough class=core cap=300 bounds="all (u8,i16,bool)"
schema_ok!(c14_tuple3, (u8, i16, bool), 6, kani::any());
//@ tier=thorough class=core cap=300 bounds="all (u8,i16,bool,u32)"
schema_ok!(c14_tuple4, (u8, i16, bool, u32), 8, kani::any());
//@ tier=thorough class=core cap=300 bounds="all (u8,i16,bool,u32,i8)"
schema_ok!(c14_tuple5, (u8, i16, bool, u32, i8), 8, kani::any());
//@ tier=quick class=core cap=600 bounds="all (u8,u16,u32,u64,i8,i16)"
schema_ok!(c14_tuple6, (u8, u16, u32, u64, i8, i16), 13, kani::any());
//@ tier=thorough class=core cap=120 bounds="[u8;0]"
schema_ok!(c14_array0, [u8; 0], 3, []);
//@ tier=quick class=core cap=300 bounds="all [u16;3]"
schema_ok!(c14_array3, [u16; 3], 8, kani::any());
//@ tier=quick class=core cap=300 bounds="all Option<u16>"
schema_ok!(c14_option, Option<u16>, 6, kani::any());
//@ tier=quick class=core cap=300 bounds="all Result<u8,i16>"
schema_ok!(c14_result, Result<u8, i16>, 6, kani::any());
//@ tier=thorough class=core cap=300 bounds="all &u32"
schema_ok!(c14_ref, &u32, 8, &*Box::leak(Box::new(kani::any::<u32>())));
//@ tier=quick class=core cap=300 bounds="all Range<u16>"
schema_ok!(c14_range, Range<u16>, 6, kani::any::<u16>()..kani::any::<u16>());
//@ tier=thorough class=core cap=300 bounds="all RangeInclusive<u16>"
schema_ok!(c14_range_incl, RangeInclusive<u16>, 6, kani::any::<u16>()..=kani::any::<u16>());
//@ tier=thorough class=core cap=300 bounds="all RangeFrom<u16>"
schema_ok!(c14_range_from, RangeFrom<u16>, 6, kani::any::<u16>()..);
//@ tier=thorough class=core cap=300 bounds="all RangeTo<u16>"
schema_ok!(c14_range_to, RangeTo<u16>, 6, ..kani::any::<u16>());
//@ tier=thorough class=core cap=600 bounds="uuid::Uuid from any 16 bytes"
schema_ok!(c14_uuid, uuid::Uuid, 20, uuid::Uuid::from_bytes(kani::any()));
//@ tier=thorough class=core cap=600 bounds="Key from any 8 bytes"
schema_ok!(c14_key, postcard_schema::key::Key, 12, unsafe { postcard_schema::key::Key::from_bytes(kani::any()) });

fn any_str2(store: &mut [u8; 2]) -> &str {
    *store = kani::any();
    let len: usize = kani::any();
    kani::assume(len <= 2);
    let r = core::str::from_utf8(&store[..len]);
    kani::assume(r.is_ok());
    r.unwrap()
}

#[kani::proof]
#[kani::unwind(6)]
//@ tier=quick class=core cap=600 bounds="every str / String / heapless String of 0..=2 bytes"
fn c14_strings() {
    let mut store = [0u8; 2];
    let s = any_str2(&mut store);
    conforms(s, <str as Schema>::SCHEMA);
    let mut buf = [0u8; 8];
    reader_consumes(s, <str as Schema>::SCHEMA, &mut buf);
    let owned = String::from(s);
    conforms(&owned, <String as Schema>::SCHEMA);
    let mut h7: heapless_v0_7::String<2> = heapless_v0_7::String::new();
    h7.push_str(s).unwrap();
    conforms(&h7, <heapless_v0_7::String<2> as Schema>::SCHEMA);
    let mut h8: heapless_v0_8::String<2> = heapless_v0_8::String::new();
    h8.push_str(s).unwrap();
    conforms(&h8, <heapless_v0_8::String<2> as Schema>::SCHEMA);
    kani::cover!(s.len() == 2, "two bytes reachable");
    core::mem::forget(owned);
}

#[kani::proof]
#[kani::unwind(6)]
//@ tier=thorough class=best cap=900 bounds="PathBuf from every str of 0..=2 bytes (heap OsString; ran out of memory)"
fn c14_pathbuf() {
    let mut store = [0u8; 2];
    let s = any_str2(&mut store);
    let p = std::path::PathBuf::from(s);
    conforms(&p, <std::path::PathBuf as Schema>::SCHEMA);
    kani::cover!(s.len() == 2, "two bytes reachable");
    core::mem::forget(p);
}

#[kani::proof]
#[kani::unwind(6)]
//@ tier=quick class=core cap=900 bounds="every &[u8] / [u16] slice / Vec<u16> / heapless Vec (0.7, 0.8) of 0..=2 elements"
fn c14_sequences() {
    let raw: [u16; 2] = kani::any();
    let len: usize = kani::any();
    kani::assume(len <= 2);
    let sl: &[u16] = &raw[..len];
    conforms(sl, <[u16] as Schema>::SCHEMA);
    let mut buf = [0u8; 8];
    reader_consumes(sl, <[u16] as Schema>::SCHEMA, &mut buf);
    conforms(&sl, <&[u16] as Schema>::SCHEMA);
    let bytes: [u8; 2] = kani::any();
    let bs: &[u8] = &bytes[..len];
    conforms(&bs, <&[u8] as Schema>::SCHEMA);
    let mut v: Vec<u16> = Vec::with_capacity(2);
    let mut h7: heapless_v0_7::Vec<u16, 2> = heapless_v0_7::Vec::new();
    let mut h8: heapless_v0_8::Vec<u16, 2> = heapless_v0_8::Vec::new();
    let mut i = 0;
    while i < len {
        v.push(raw[i]);
        h7.push(raw[i]).unwrap();
        h8.push(raw[i]).unwrap();
        i += 1;
    }
    conforms(&v, <Vec<u16> as Schema>::SCHEMA);
    conforms(&h7, <heapless_v0_7::Vec<u16, 2> as Schema>::SCHEMA);
    conforms(&h8, <heapless_v0_8::Vec<u16, 2> as Schema>::SCHEMA);
    kani::cover!(len == 2, "two elements reachable");
    core::mem::forget(v);
}

#[kani::proof]
#[kani::unwind(6)]
//@ tier=thorough class=best cap=1800 bounds="BTreeMap<u8,u16> and BTreeSet<u8> with 0..=1 entries"
fn c14_btree() {
    let mut m = std::collections::BTreeMap::<u8, u16>::new();
    let mut s = std::collections::BTreeSet::<u8>::new();
    if kani::any() {
        m.insert(kani::any(), kani::any());
        s.insert(kani::any());
    }
    conforms(&m, <std::collections::BTreeMap<u8, u16> as Schema>::SCHEMA);
    conforms(&s, <std::collections::BTreeSet<u8> as Schema>::SCHEMA);
    kani::cover!(m.len() == 1, "one entry reachable");
    core::mem::forget((m, s));
}

#[kani::proof]
#[kani::unwind(12)]
//@ tier=thorough class=core cap=900 bounds="chrono::DateTime<Utc> (UNIX_EPOCH; the value is irrelevant: it is a Display-collected string)"
fn c14_chrono() {
    let d = chrono::DateTime::<chrono::Utc>::UNIX_EPOCH;
    conforms(&d, <chrono::DateTime<chrono::Utc> as Schema>::SCHEMA);
    kani::cover!(true, "reached");
}

// ---- derived corpus
#[derive(Serialize, Schema)]
#[cfg_attr(kani, derive(kani::Arbitrary))]
struct SUnit;
#[derive(Serialize, Schema)]
#[cfg_attr(kani, derive(kani::Arbitrary))]
struct SNew(u32);
#[derive(Serialize, Schema)]
#[cfg_attr(kani, derive(kani::Arbitrary))]
struct STup(u8, i16);
#[derive(Serialize, Schema)]
#[cfg_attr(kani, derive(kani::Arbitrary))]
struct SNamed {
    alpha: u16,
    beta: Option<i32>,
    gamma: [u8; 2],
}
#[derive(Serialize, Schema)]
#[cfg_attr(kani, derive(kani::Arbitrary))]
struct SGeneric<T> {
    x: T,
    y: (T, u8),
}
#[derive(Serialize, Schema)]
struct SLife<'a> {
    id: u8,
    text: &'a str,
}
#[derive(Serialize, Schema)]
#[cfg_attr(kani, derive(kani::Arbitrary))]
enum SEnum {
    A,
    B(u16),
    C(u8, i32),
    D { x: i64, y: bool },
    E { only: u8 },
    F(),
}
#[derive(Serialize, Schema)]
#[cfg_attr(kani, derive(kani::Arbitrary))]
struct SOne {
    only: u16,
}
#[derive(Serialize, Schema)]
#[cfg_attr(kani, derive(kani::Arbitrary))]
struct SRaw {
    r#type: u8,
    r#loop: bool,
}
#[derive(Serialize, Schema)]
#[cfg_attr(kani, derive(kani::Arbitrary))]
struct SNested(SEnum, (u8, [u16; 2]), Result<u8, i16>, SNamed);

//@ tier=thorough class=core cap=120 bounds="derive: unit struct"
schema_ok!(c14_derive_unit, SUnit, 3, SUnit);
//@ tier=thorough class=core cap=300 bounds="derive: all values of newtype struct"
schema_ok!(c14_derive_newtype, SNew, 8, kani::any());
//@ tier=thorough class=core cap=300 bounds="derive: all values of tuple struct"
schema_ok!(c14_derive_tuple, STup, 6, kani::any());
//@ tier=quick class=core cap=600 bounds="derive: all values of named struct {u16,Option<i32>,[u8;2]}"
schema_ok!(c14_derive_named, SNamed, 8, kani::any());
//@ tier=thorough class=core cap=600 bounds="derive: all values of SGeneric<i32>"
schema_ok!(c14_derive_generic, SGeneric<i32>, 8, kani::any());
//@ tier=quick class=core cap=300 bounds="derive: all values of a struct with exactly one named field"
schema_ok!(c14_derive_one_field, SOne, 6, kani::any());
//@ tier=quick class=core cap=300 bounds="derive: all values of a struct whose fields are raw identifiers (r#type, r#loop)" family=raw_ident
schema_ok!(c14_derive_raw_ident, SRaw, 6, kani::any());
//@ tier=quick class=core cap=900 bounds="derive: all values of an enum with unit/newtype/tuple/struct/one-field-struct/empty-tuple variants"
schema_ok!(c14_derive_enum, SEnum, 13, kani::any());
//@ tier=quick class=core cap=1800 bounds="derive: all values of nested struct (enum, tuple, array, Result, named struct)"
schema_ok!(c14_derive_nested, SNested, 13, kani::any());

#[kani::proof]
#[kani::unwind(6)]
//@ tier=thorough class=core cap=900 bounds="derive: lifetime-carrying struct, every &str of 0..=2 bytes"
fn c14_derive_lifetime() {
    let mut store = [0u8; 2];
    let s = any_str2(&mut store);
    let v = SLife { id: kani::any(), text: s };
    conforms(&v, <SLife as Schema>::SCHEMA);
    let mut buf = [0u8; 8];
    let n = reader_consumes(&v, <SLife as Schema>::SCHEMA, &mut buf);
    kani::cover!(n == 4, "longest reachable");
}
