//! LockstepSer — a checking `serde::Serializer` that walks a `&'static DataModelType` in step with
//! the REAL `Serialize` call sequence of a value and asserts that every data-model item conforms:
//! kind, struct field names and order, variant index <-> variant name <-> Data form, arity,
//! element / key / value types.  Type (struct/enum) names are NOT compared: the property relates
//! items, fields and variants, and schema keys deliberately ignore type names (C16).
//!
//! Plus `skip` — a schema-driven reader written from the wire-format spec that must consume an
//! encoding of the type exactly.
use crate::spec::{utf8_scalars, Rd, K};
use postcard_schema::schema::{Data, DataModelType, NamedField, Variant};
use serde::ser::{self, Serialize};

#[derive(Debug)]
pub struct LErr;
impl core::fmt::Display for LErr {
    fn fmt(&self, _f: &mut core::fmt::Formatter<'_>) -> core::fmt::Result {
        Ok(())
    }
}
impl std::error::Error for LErr {}
impl ser::Error for LErr {
    fn custom<T: core::fmt::Display>(_m: T) -> Self {
        LErr
    }
}

pub struct Lock(pub &'static DataModelType);

fn same_name(a: &str, b: &str) -> bool {
    let (a, b) = (a.as_bytes(), b.as_bytes());
    if a.len() != b.len() {
        return false;
    }
    let mut i = 0;
    while i < a.len() {
        if a[i] != b[i] {
            return false;
        }
        i += 1;
    }
    true
}

fn variant_of(s: &'static DataModelType, idx: u32, vname: &str) -> Data {
    match s {
        DataModelType::Enum { variants, .. } => {
            assert!((idx as usize) < variants.len(), "variant index not described by the schema");
            let v: &Variant = variants[idx as usize];
            assert!(same_name(v.name, vname), "variant name at this index differs from the schema");
            v.data
        }
        _ => {
            assert!(false, "value serialises as an enum variant but the schema is not an Enum");
            Data::Unit
        }
    }
}

macro_rules! leaf {
    ($f:ident, $t:ty, $kind:ident) => {
        fn $f(self, _v: $t) -> Result<(), LErr> {
            assert!(matches!(self.0, DataModelType::$kind), concat!("value serialises as ", stringify!($kind), " but the schema says otherwise"));
            Ok(())
        }
    };
}

pub struct Elems {
    elems: &'static [&'static DataModelType],
    i: usize,
}
pub struct Fields {
    fields: &'static [&'static NamedField],
    i: usize,
}
pub struct SeqOf(&'static DataModelType);
pub struct MapOf(&'static DataModelType, &'static DataModelType);

impl ser::Serializer for Lock {
    type Ok = ();
    type Error = LErr;
    type SerializeSeq = SeqOf;
    type SerializeTuple = Elems;
    type SerializeTupleStruct = Elems;
    type SerializeTupleVariant = Elems;
    type SerializeMap = MapOf;
    type SerializeStruct = Fields;
    type SerializeStructVariant = Fields;

    fn is_human_readable(&self) -> bool {
        false
    }
    leaf!(serialize_bool, bool, Bool);
    leaf!(serialize_i8, i8, I8);
    leaf!(serialize_i16, i16, I16);
    leaf!(serialize_i32, i32, I32);
    leaf!(serialize_i64, i64, I64);
    leaf!(serialize_i128, i128, I128);
    leaf!(serialize_u8, u8, U8);
    leaf!(serialize_u16, u16, U16);
    leaf!(serialize_u32, u32, U32);
    leaf!(serialize_u64, u64, U64);
    leaf!(serialize_u128, u128, U128);
    leaf!(serialize_f32, f32, F32);
    leaf!(serialize_f64, f64, F64);
    leaf!(serialize_char, char, Char);
    leaf!(serialize_str, &str, String);
    leaf!(serialize_bytes, &[u8], ByteArray);

    fn serialize_none(self) -> Result<(), LErr> {
        assert!(matches!(self.0, DataModelType::Option(_)), "value serialises as an option but the schema says otherwise");
        Ok(())
    }
    fn serialize_some<T: ?Sized + Serialize>(self, value: &T) -> Result<(), LErr> {
        match self.0 {
            DataModelType::Option(inner) => value.serialize(Lock(inner)),
            _ => {
                assert!(false, "value serialises as an option but the schema says otherwise");
                Err(LErr)
            }
        }
    }
    fn serialize_unit(self) -> Result<(), LErr> {
        assert!(matches!(self.0, DataModelType::Unit), "value serialises as unit but the schema says otherwise");
        Ok(())
    }
    fn serialize_unit_struct(self, _name: &'static str) -> Result<(), LErr> {
        assert!(matches!(self.0, DataModelType::Struct { data: Data::Unit, .. }), "unit struct vs schema");
        Ok(())
    }
    fn serialize_unit_variant(self, _n: &'static str, idx: u32, variant: &'static str) -> Result<(), LErr> {
        assert!(matches!(variant_of(self.0, idx, variant), Data::Unit), "unit variant vs schema");
        Ok(())
    }
    fn serialize_newtype_struct<T: ?Sized + Serialize>(self, _name: &'static str, value: &T) -> Result<(), LErr> {
        match self.0 {
            DataModelType::Struct { data: Data::Newtype(inner), .. } => value.serialize(Lock(inner)),
            _ => {
                assert!(false, "newtype struct vs schema");
                Err(LErr)
            }
        }
    }
    fn serialize_newtype_variant<T: ?Sized + Serialize>(self, _n: &'static str, idx: u32, variant: &'static str, value: &T) -> Result<(), LErr> {
        match variant_of(self.0, idx, variant) {
            Data::Newtype(inner) => value.serialize(Lock(inner)),
            _ => {
                assert!(false, "newtype variant vs schema");
                Err(LErr)
            }
        }
    }
    fn serialize_seq(self, _len: Option<usize>) -> Result<SeqOf, LErr> {
        match self.0 {
            DataModelType::Seq(e) => Ok(SeqOf(e)),
            _ => {
                assert!(false, "value serialises as a sequence but the schema says otherwise");
                Err(LErr)
            }
        }
    }
    fn serialize_tuple(self, len: usize) -> Result<Elems, LErr> {
        match self.0 {
            DataModelType::Tuple(elems) => {
                assert!(elems.len() == len, "tuple arity differs from the schema");
                Ok(Elems { elems, i: 0 })
            }
            _ => {
                assert!(false, "value serialises as a tuple but the schema says otherwise");
                Err(LErr)
            }
        }
    }
    fn serialize_tuple_struct(self, _name: &'static str, len: usize) -> Result<Elems, LErr> {
        match self.0 {
            DataModelType::Struct { data: Data::Tuple(elems), .. } => {
                assert!(elems.len() == len, "tuple struct arity differs from the schema");
                Ok(Elems { elems, i: 0 })
            }
            _ => {
                assert!(false, "tuple struct vs schema");
                Err(LErr)
            }
        }
    }
    fn serialize_tuple_variant(self, _n: &'static str, idx: u32, variant: &'static str, len: usize) -> Result<Elems, LErr> {
        match variant_of(self.0, idx, variant) {
            Data::Tuple(elems) => {
                assert!(elems.len() == len, "tuple variant arity differs from the schema");
                Ok(Elems { elems, i: 0 })
            }
            _ => {
                assert!(false, "tuple variant vs schema");
                Err(LErr)
            }
        }
    }
    fn serialize_map(self, _len: Option<usize>) -> Result<MapOf, LErr> {
        match self.0 {
            DataModelType::Map { key, val } => Ok(MapOf(key, val)),
            _ => {
                assert!(false, "value serialises as a map but the schema says otherwise");
                Err(LErr)
            }
        }
    }
    fn serialize_struct(self, _name: &'static str, len: usize) -> Result<Fields, LErr> {
        match self.0 {
            DataModelType::Struct { data: Data::Struct(fields), .. } => {
                assert!(fields.len() == len, "number of struct fields differs from the schema");
                Ok(Fields { fields, i: 0 })
            }
            _ => {
                assert!(false, "named struct vs schema");
                Err(LErr)
            }
        }
    }
    fn serialize_struct_variant(self, _n: &'static str, idx: u32, variant: &'static str, len: usize) -> Result<Fields, LErr> {
        match variant_of(self.0, idx, variant) {
            Data::Struct(fields) => {
                assert!(fields.len() == len, "number of variant fields differs from the schema");
                Ok(Fields { fields, i: 0 })
            }
            _ => {
                assert!(false, "struct variant vs schema");
                Err(LErr)
            }
        }
    }
    fn collect_str<T: ?Sized + core::fmt::Display>(self, _value: &T) -> Result<(), LErr> {
        // a Display-collected string is a string item; the text itself is not needed
        assert!(matches!(self.0, DataModelType::String), "collect_str vs schema");
        Ok(())
    }
}

impl ser::SerializeSeq for SeqOf {
    type Ok = ();
    type Error = LErr;
    fn serialize_element<T: ?Sized + Serialize>(&mut self, v: &T) -> Result<(), LErr> {
        v.serialize(Lock(self.0))
    }
    fn end(self) -> Result<(), LErr> {
        Ok(())
    }
}
impl ser::SerializeMap for MapOf {
    type Ok = ();
    type Error = LErr;
    fn serialize_key<T: ?Sized + Serialize>(&mut self, v: &T) -> Result<(), LErr> {
        v.serialize(Lock(self.0))
    }
    fn serialize_value<T: ?Sized + Serialize>(&mut self, v: &T) -> Result<(), LErr> {
        v.serialize(Lock(self.1))
    }
    fn end(self) -> Result<(), LErr> {
        Ok(())
    }
}
macro_rules! elems_impl {
    ($tr:ident, $f:ident) => {
        impl ser::$tr for Elems {
            type Ok = ();
            type Error = LErr;
            fn $f<T: ?Sized + Serialize>(&mut self, v: &T) -> Result<(), LErr> {
                assert!(self.i < self.elems.len(), "more elements than the schema lists");
                let e = self.elems[self.i];
                self.i += 1;
                v.serialize(Lock(e))
            }
            fn end(self) -> Result<(), LErr> {
                assert!(self.i == self.elems.len(), "fewer elements than the schema lists");
                Ok(())
            }
        }
    };
}
elems_impl!(SerializeTuple, serialize_element);
elems_impl!(SerializeTupleStruct, serialize_field);
elems_impl!(SerializeTupleVariant, serialize_field);
macro_rules! fields_impl {
    ($tr:ident) => {
        impl ser::$tr for Fields {
            type Ok = ();
            type Error = LErr;
            fn serialize_field<T: ?Sized + Serialize>(&mut self, key: &'static str, v: &T) -> Result<(), LErr> {
                assert!(self.i < self.fields.len(), "more fields than the schema lists");
                let f = self.fields[self.i];
                assert!(same_name(f.name, key), "field name / order differs from the schema");
                self.i += 1;
                v.serialize(Lock(f.ty))
            }
            fn end(self) -> Result<(), LErr> {
                assert!(self.i == self.fields.len(), "fewer fields than the schema lists");
                Ok(())
            }
        }
    };
}
fields_impl!(SerializeStruct);
fields_impl!(SerializeStructVariant);

/// Walk `v` against its schema.
pub fn conforms<T: Serialize + ?Sized>(v: &T, schema: &'static DataModelType) {
    let r = v.serialize(Lock(schema));
    assert!(r.is_ok(), "serialisation does not conform to the schema");
}

// ---------------------------------------------------------------------------------------------
// schema-driven reader (knows nothing but the schema), from the wire-format spec
// ---------------------------------------------------------------------------------------------
fn skip_data(d: &Data, rd: &mut Rd) -> Result<(), K> {
    match d {
        Data::Unit => Ok(()),
        Data::Newtype(t) => skip(t, rd),
        Data::Tuple(ts) => {
            let mut i = 0;
            while i < ts.len() {
                skip(ts[i], rd)?;
                i += 1;
            }
            Ok(())
        }
        Data::Struct(fs) => {
            let mut i = 0;
            while i < fs.len() {
                skip(fs[i].ty, rd)?;
                i += 1;
            }
            Ok(())
        }
    }
}

pub fn skip(s: &DataModelType, rd: &mut Rd) -> Result<(), K> {
    match s {
        DataModelType::Bool => rd.bool().map(|_| ()),
        DataModelType::I8 | DataModelType::U8 => rd.u8().map(|_| ()),
        DataModelType::I16 | DataModelType::U16 => rd.varint(16).map(|_| ()),
        DataModelType::I32 | DataModelType::U32 => rd.varint(32).map(|_| ()),
        DataModelType::I64 | DataModelType::U64 | DataModelType::Usize | DataModelType::Isize => rd.varint(64).map(|_| ()),
        DataModelType::I128 | DataModelType::U128 => rd.varint(128).map(|_| ()),
        DataModelType::F32 => rd.fixed(4).map(|_| ()),
        DataModelType::F64 => rd.fixed(8).map(|_| ()),
        DataModelType::Char | DataModelType::String | DataModelType::ByteArray => rd.len_prefixed().map(|_| ()),
        DataModelType::Option(t) => {
            if rd.option_tag()? {
                skip(t, rd)
            } else {
                Ok(())
            }
        }
        DataModelType::Unit => Ok(()),
        DataModelType::Seq(t) => {
            let n = rd.varint(64)?;
            let mut i = 0u128;
            while i < n {
                skip(t, rd)?;
                i += 1;
            }
            Ok(())
        }
        DataModelType::Tuple(ts) => {
            let mut i = 0;
            while i < ts.len() {
                skip(ts[i], rd)?;
                i += 1;
            }
            Ok(())
        }
        DataModelType::Map { key, val } => {
            let n = rd.varint(64)?;
            let mut i = 0u128;
            while i < n {
                skip(key, rd)?;
                skip(val, rd)?;
                i += 1;
            }
            Ok(())
        }
        DataModelType::Struct { data, .. } => skip_data(data, rd),
        DataModelType::Enum { variants, .. } => {
            let idx = rd.varint(32)?;
            // (concrete loop over the variants: a symbolic index into the schema would make the schema
            // node itself symbolic for CBMC)
            let mut i = 0;
            while i < variants.len() {
                if idx == i as u128 {
                    return skip_data(&variants[i].data, rd);
                }
                i += 1;
            }
            Err(K::Other)
        }
        DataModelType::Schema => Err(K::Other),
    }
}

/// The schema-driven reader parses `to_slice(v)` and consumes it exactly.
pub fn reader_consumes<T: Serialize + ?Sized>(v: &T, schema: &'static DataModelType, buf: &mut [u8]) -> usize {
    let out = postcard::to_slice(v, buf).unwrap();
    let n = out.len();
    let mut rd = Rd::new(out);
    let r = skip(schema, &mut rd);
    assert!(r.is_ok(), "a reader that knows only the schema cannot parse the encoding");
    assert!(rd.pos == n, "a reader that knows only the schema does not consume the encoding exactly");
    n
}
