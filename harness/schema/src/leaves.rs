//! The 20 leaf kinds (no children), all in one harness per check: C15 encoding + conversion + decoding,
//! C16 keys from both constructors, C19 helpers.
use crate::shapes::*;
use postcard_schema::schema::owned::OwnedDataModelType as O;
use postcard_schema::schema::DataModelType as B;

const N: usize = 20;
static BORROWED: [B; N] = [
    B::Bool, B::I8, B::U8, B::I16, B::I32, B::I64, B::I128, B::U16, B::U32, B::U64, B::U128, B::Usize, B::Isize, B::F32, B::F64,
    B::Char, B::String, B::ByteArray, B::Unit, B::Schema,
];
fn owned(i: usize) -> O {
    match i {
        0 => O::Bool,
        1 => O::I8,
        2 => O::U8,
        3 => O::I16,
        4 => O::I32,
        5 => O::I64,
        6 => O::I128,
        7 => O::U16,
        8 => O::U32,
        9 => O::U64,
        10 => O::U128,
        11 => O::Usize,
        12 => O::Isize,
        13 => O::F32,
        14 => O::F64,
        15 => O::Char,
        16 => O::String,
        17 => O::ByteArray,
        18 => O::Unit,
        _ => O::Schema,
    }
}
/// documented tag of each leaf kind (from the comment block in key/hash.rs)
const TAGS: [u8; N] = [0x11, 0xC5, 0x3D, 0x1D, 0x0D, 0x0B, 0x02, 0x83, 0xD3, 0x13, 0x8B, 0x6B, 0xAD, 0xEF, 0x71, 0xC1, 0x25, 0x65, 0x47, 0xE5];
/// variant index of each leaf kind on the wire (position in the declaration of both enums)
const WIRE_IDX: [u8; N] = [0, 1, 2, 3, 4, 5, 6, 7, 8, 9, 10, 11, 12, 13, 14, 15, 16, 17, 19, 25];

macro_rules! each_leaf {
    ($f:ident) => {
        $f(0); $f(1); $f(2); $f(3); $f(4); $f(5); $f(6); $f(7); $f(8); $f(9);
        $f(10); $f(11); $f(12); $f(13); $f(14); $f(15); $f(16); $f(17); $f(18); $f(19);
    };
}

#[kani::proof]
#[kani::unwind(4)]
//@ tier=quick class=core cap=600 bounds="all 20 leaf kinds: borrowed and owned leaf encode identically, as one byte = the kind's declaration index"
fn c15_leaves() {
    fn one(i: usize) {
        let o = owned(i);
        let mut b1 = [0u8; 4];
        let mut b2 = [0u8; 4];
        let r1 = postcard::to_slice(&BORROWED[i], &mut b1).unwrap().len();
        let r2 = postcard::to_slice(&o, &mut b2).unwrap().len();
        assert!(r1 == 1 && r2 == 1, "a leaf kind is not encoded as a single byte");
        assert!(b1[0] == WIRE_IDX[i] && b2[0] == WIRE_IDX[i], "leaf kind is not encoded as its declaration index in both forms");
    }
    each_leaf!(one);
    kani::cover!(true, "all leaves visited");
}

#[kani::proof]
#[kani::unwind(4)]
//@ tier=quick class=core cap=900 bounds="all 20 leaf kinds: the hand-written From conversion maps each borrowed leaf to the same owned leaf"
fn c15_leaves_from() {
    fn one(i: usize) {
        assert!(O::from(&BORROWED[i]) == owned(i), "conversion of a leaf kind yields a different kind");
    }
    each_leaf!(one);
    kani::cover!(true, "all leaves visited");
}

#[kani::proof]
#[kani::unwind(4)]
//@ tier=thorough class=best cap=1800 bounds="all 20 leaf kinds: from_bytes::<OwnedDataModelType>([index]) is the owned leaf"
fn c15_leaves_dec() {
    fn one(i: usize) {
        let back: O = postcard::from_bytes(&[WIRE_IDX[i]]).unwrap();
        assert!(back == owned(i), "decoding a leaf schema yields a different kind");
    }
    each_leaf!(one);
    kani::cover!(true, "all leaves visited");
}

#[kani::proof]
#[kani::stub(postcard_schema::key::hash::fnv1a64::hash_update, crate::shapes::hash_update_logger)]
#[kani::unwind(40)]
//@ tier=quick class=core cap=2400 bounds="all 20 leaf kinds x every path of 0..=3 UTF-8 bytes: the compile-time hasher feeds hash_update exactly path ++ documented tag" stubs="hash_update=byte logger (kernel verified separately)" hooks=H2
fn c16_leaves_stream_const() {
    let path = Path::any();
    let one = |i: usize| {
        let mut want = Expect::new();
        want.bytes(path.bytes());
        want.tag(TAGS[i]);
        stream_reset();
        let _ = postcard_schema::key::hash::fnv1a64::verif_hash_static(path.as_str(), &BORROWED[i]);
        stream_equals(&want);
    };
    each_leaf!(one);
    kani::cover!(path.len == 3, "3-byte path reachable");
}

#[kani::proof]
#[kani::stub(postcard_schema::key::hash::fnv1a64::hash_update, crate::shapes::hash_update_logger)]
#[kani::unwind(40)]
//@ tier=quick class=core cap=2400 bounds="all 20 leaf kinds x every path of 0..=3 UTF-8 bytes: the run-time hasher feeds hash_update exactly path ++ documented tag" stubs="hash_update=byte logger (kernel verified separately)"
fn c16_leaves_stream_owned() {
    let path = Path::any();
    let one = |i: usize| {
        let mut want = Expect::new();
        want.bytes(path.bytes());
        want.tag(TAGS[i]);
        stream_reset();
        let _ = postcard_schema::key::Key::for_owned_schema_path(path.as_str(), &owned(i));
        stream_equals(&want);
    };
    each_leaf!(one);
    kani::cover!(path.len == 3, "3-byte path reachable");
}

#[kani::proof]
#[kani::unwind(4)]
//@ tier=quick class=core cap=600 bounds="all 20 leaf kinds: to_pseudocode() returns a non-empty rendering"
fn c19_pseudo_leaves() {
    fn one(i: usize) {
        let t = owned(i).to_pseudocode();
        assert!(t.len() > 0);
        core::mem::forget(t);
    }
    each_leaf!(one);
    kani::cover!(true, "all leaves visited");
}

#[kani::proof]
#[kani::stub(std::collections::HashSet::insert, crate::shapes::insert_logger)]
#[kani::stub(std::hash::RandomState::new, crate::shapes::random_state_any)]
#[kani::unwind(4)]
//@ tier=quick class=core cap=600 bounds="all 20 leaf kinds incl. Usize, Isize and Schema: discover_tys returns and logs exactly the leaf itself" stubs="HashSet::insert=logger;RandomState::new=arbitrary keys" family=leaves
fn c19_discover_leaves() {
    fn one(i: usize) {
        let o = owned(i);
        let log = discover(&o);
        assert!(log.n == 1, "a leaf schema uses exactly one type: itself");
        assert!(log.kind[0] == WIRE_IDX[i], "collected type is not the leaf itself");
    }
    each_leaf!(one);
    kani::cover!(true, "all leaves visited");
}
