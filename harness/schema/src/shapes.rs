//! Hand-written helpers used by the generated per-shape harnesses (shapes_gen.rs).
use crate::arena::*;
use crate::spec::utf8_scalars;
use core::mem::ManuallyDrop;
use postcard_schema::schema::owned::{OwnedData, OwnedDataModelType, OwnedNamedField, OwnedVariant};
use postcard_schema::schema::{Data, DataModelType, NamedField, Variant};

pub const REF_BASIS: u64 = 0xcbf2_9ce4_8422_2325;
pub const REF_PRIME: u64 = 0x0000_0100_0000_01b3;

/// FNV-1a 64 written from its definition (xor the byte, multiply by the prime, mod 2^64).
pub fn ref_fnv(mut h: u64, bytes: &[u8]) -> u64 {
    let mut i = 0;
    while i < bytes.len() {
        h ^= bytes[i] as u64;
        h = h.wrapping_mul(REF_PRIME);
        i += 1;
    }
    h
}

/// A symbolic key path: 0..=3 bytes of well-formed UTF-8 (ASCII, 2- and 3-byte scalars).
pub struct Path {
    pub b: [u8; 3],
    pub len: usize,
}
impl Path {
    #[cfg(kani)]
    pub fn any() -> Self {
        let b: [u8; 3] = kani::any();
        let len: usize = kani::any();
        kani::assume(len <= 3);
        kani::assume(utf8_scalars(&b[..len]).is_some());
        Path { b, len }
    }
    pub fn bytes(&self) -> &[u8] {
        &self.b[..self.len]
    }
    pub fn as_str(&self) -> &str {
        unsafe { core::str::from_utf8_unchecked(&self.b[..self.len]) }
    }
}

const ENC: usize = 48;

/// C15 core: the borrowed schema and the owned schema serialise to identical bytes.
pub fn same_encoding(b: &'static DataModelType, o: &OwnedDataModelType) {
    let mut b1 = [0u8; ENC];
    let mut b2 = [0u8; ENC];
    let r1 = postcard::to_slice(b, &mut b1).unwrap();
    let r2 = postcard::to_slice(o, &mut b2).unwrap();
    assert!(r1.len() == r2.len(), "borrowed and owned schema encodings differ in length");
    let mut i = 0;
    while i < r1.len() {
        assert!(r1[i] == r2[i], "borrowed and owned schema encodings differ");
        i += 1;
    }
    #[cfg(kani)]
    kani::cover!(r1.len() > 1, "non-trivial encoding");
}

fn root_kind(o: &OwnedDataModelType) -> u8 {
    match o {
        OwnedDataModelType::Bool => 0,
        OwnedDataModelType::I8 => 1,
        OwnedDataModelType::U8 => 2,
        OwnedDataModelType::I16 => 3,
        OwnedDataModelType::I32 => 4,
        OwnedDataModelType::I64 => 5,
        OwnedDataModelType::I128 => 6,
        OwnedDataModelType::U16 => 7,
        OwnedDataModelType::U32 => 8,
        OwnedDataModelType::U64 => 9,
        OwnedDataModelType::U128 => 10,
        OwnedDataModelType::Usize => 11,
        OwnedDataModelType::Isize => 12,
        OwnedDataModelType::F32 => 13,
        OwnedDataModelType::F64 => 14,
        OwnedDataModelType::Char => 15,
        OwnedDataModelType::String => 16,
        OwnedDataModelType::ByteArray => 17,
        OwnedDataModelType::Option(_) => 18,
        OwnedDataModelType::Unit => 19,
        OwnedDataModelType::Seq(_) => 20,
        OwnedDataModelType::Tuple(_) => 21,
        OwnedDataModelType::Map { .. } => 22,
        OwnedDataModelType::Struct { .. } => 23,
        OwnedDataModelType::Enum { .. } => 24,
        OwnedDataModelType::Schema => 25,
    }
}

/// C15 best-effort: the hand-written From conversion yields a tree that encodes like the documented one.
pub fn conversion_matches(b: &'static DataModelType, o: &OwnedDataModelType) {
    let conv = OwnedDataModelType::from(b);
    assert!(root_kind(&conv) == root_kind(o), "conversion changes the root kind");
    let mut b1 = [0u8; ENC];
    let mut b2 = [0u8; ENC];
    let r1 = postcard::to_slice(&conv, &mut b1).unwrap();
    let r2 = postcard::to_slice(o, &mut b2).unwrap();
    assert!(r1.len() == r2.len(), "converted schema encodes differently");
    let mut i = 0;
    while i < r1.len() {
        assert!(r1[i] == r2[i], "converted schema encodes differently");
        i += 1;
    }
    #[cfg(kani)]
    kani::cover!(r1.len() > 1, "non-trivial encoding");
    core::mem::forget(conv);
}

/// C15 best-effort: the bytes deserialise to an owned schema that re-encodes to the same bytes.
pub fn decode_matches(o: &OwnedDataModelType) {
    let mut b1 = [0u8; ENC];
    let r1 = postcard::to_slice(o, &mut b1).unwrap();
    let n = r1.len();
    let dec: OwnedDataModelType = postcard::from_bytes(&b1[..n]).unwrap();
    assert!(root_kind(&dec) == root_kind(o), "decoded schema has a different root kind");
    let mut b2 = [0u8; ENC];
    let r2 = postcard::to_slice(&dec, &mut b2).unwrap();
    assert!(r2.len() == n, "decoded schema re-encodes differently");
    let mut i = 0;
    while i < n {
        assert!(b1[i] == r2[i], "decoded schema re-encodes differently");
        i += 1;
    }
    #[cfg(kani)]
    kani::cover!(n > 1, "non-trivial encoding");
    core::mem::forget(dec);
}

/// naive byte-window search (not str::contains)
pub fn contains(hay: &[u8], needle: &[u8]) -> bool {
    if needle.len() == 0 {
        return true;
    }
    if hay.len() < needle.len() {
        return false;
    }
    let mut i = 0;
    while i + needle.len() <= hay.len() {
        let mut k = 0;
        let mut all = true;
        while k < needle.len() {
            if hay[i + k] != needle[k] {
                all = false;
            }
            k += 1;
        }
        if all {
            return true;
        }
        i += 1;
    }
    false
}

// ---------------------------------------------------------------------------------------------
// discover_tys with the HashSet replaced by a logger (the set is the environment, the traversal the subject)
// ---------------------------------------------------------------------------------------------
pub const LOGCAP: usize = 16;
#[derive(Clone, Copy)]
pub struct Log {
    pub n: usize,
    pub kind: [u8; LOGCAP],
    pub names: [[u8; 2]; LOGCAP],
    pub name_len: [usize; LOGCAP],
}
impl Log {
    pub fn name(&self, i: usize) -> &[u8] {
        &self.names[i][..self.name_len[i]]
    }
}
static mut LOG: Log = Log { n: 0, kind: [0; LOGCAP], names: [[0; 2]; LOGCAP], name_len: [0; LOGCAP] };

/// Stub for `HashSet::<T,S,A>::insert` (same generic signature): records a shallow fingerprint of the
/// inserted schema — its kind and, for Struct/Enum, its name — and does not store it.
pub fn insert_logger<T, S, A>(_set: &mut std::collections::HashSet<T, S, A>, value: T) -> bool
where
    T: Eq + core::hash::Hash,
    S: core::hash::BuildHasher,
    A: std::alloc::Allocator,
{
    unsafe {
        let o = &*(&value as *const T as *const OwnedDataModelType);
        let i = LOG.n;
        if i < LOGCAP {
            LOG.kind[i] = root_kind(o);
            let nm: &[u8] = match o {
                OwnedDataModelType::Struct { name, .. } => name.as_bytes(),
                OwnedDataModelType::Enum { name, .. } => name.as_bytes(),
                _ => &[],
            };
            let l = if nm.len() < 2 { nm.len() } else { 2 };
            let mut k = 0;
            while k < l {
                LOG.names[i][k] = nm[k];
                k += 1;
            }
            LOG.name_len[i] = l;
        }
        LOG.n = i + 1;
    }
    core::mem::forget(value);
    true
}

/// Stub for `RandomState::new` (the real one reads OS randomness through a syscall Kani cannot model):
/// two arbitrary keys over-approximate it.
#[cfg(kani)]
pub fn random_state_any() -> std::hash::RandomState {
    let k: (u64, u64) = (kani::any(), kani::any());
    unsafe { core::mem::transmute::<(u64, u64), std::hash::RandomState>(k) }
}

pub fn discover(o: &OwnedDataModelType) -> Log {
    unsafe {
        LOG.n = 0;
    }
    let mut set = std::collections::HashSet::new();
    postcard_schema::schema::fmt::discover_tys(o, &mut set);
    core::mem::forget(set);
    unsafe { LOG }
}

// ---------------------------------------------------------------------------------------------
// C16 (2): byte-stream logger standing in for `hash_update` (same signature)
// ---------------------------------------------------------------------------------------------
pub const SCAP: usize = 36;
static mut STREAM: [u8; SCAP] = [0; SCAP];
static mut SN: usize = 0;

pub fn stream_reset() {
    unsafe {
        SN = 0;
    }
}

/// Stub for `key::hash::fnv1a64::hash_update(state, bytes) -> u64`: appends the bytes to the log and
/// returns the state unchanged (the arithmetic is verified separately on the real function).
pub fn hash_update_logger(state: u64, bytes: &[u8]) -> u64 {
    unsafe {
        let mut i = 0;
        while i < bytes.len() {
            if SN < SCAP {
                STREAM[SN] = bytes[i];
            }
            SN += 1;
            i += 1;
        }
    }
    state
}

pub struct Expect {
    pub b: [u8; SCAP],
    pub n: usize,
}
impl Expect {
    pub fn new() -> Self {
        Expect { b: [0; SCAP], n: 0 }
    }
    pub fn tag(&mut self, t: u8) {
        self.b[self.n] = t;
        self.n += 1;
    }
    pub fn bytes(&mut self, s: &[u8]) {
        let mut i = 0;
        while i < s.len() {
            self.b[self.n] = s[i];
            self.n += 1;
            i += 1;
        }
    }
}

pub fn stream_equals(want: &Expect) {
    unsafe {
        assert!(SN == want.n, "hasher fed a stream of a different length than path ++ documented tag-and-name stream");
        let mut i = 0;
        while i < SCAP {
            if i < want.n {
                assert!(STREAM[i] == want.b[i], "hasher fed a byte that differs from the documented tag-and-name stream");
            }
            i += 1;
        }
    }
}
