//! C11 over std::io — harness bodies live in common/c11_body.rs.
//@ tier=quick class=core cap=900 bounds="std::io: every input 0..=4 as u16 x failure offset (none or any) x scratch 0..=2; vs take_from_bytes" stubs="Read::read_exact/Write::write_all/flush = model transport"
reader_harness!(c11_std_reader_u16, u16, 4, 2, 8, false);
//@ tier=quick class=core cap=1800 bounds="std::io: every input 0..=5 as (u16,&[u8]) x failure offset x scratch 0..=4" stubs="model transport at read_exact"
reader_harness!(c11_std_reader_numbytes, NumBytes, 5, 4, 9, false);
//@ tier=thorough class=core cap=2400 bounds="std::io: every input 0..=6 as (&[u8],&[u8]) x failure offset x scratch 0..=5: two borrowed fields share the scratch" stubs="model transport at read_exact"
reader_harness!(c11_std_reader_twobytes, TwoBytes, 6, 5, 10, false);
//@ tier=thorough class=core cap=2400 bounds="std::io: two (u16,&[u8]) messages decoded in sequence from one stream of 0..=6 bytes" stubs="model transport at read_exact"
two_messages_harness!(c11_std_two_messages, 6, 10);
//@ tier=quick class=core cap=900 bounds="std::io: all Named values x writer failure at every offset 0..=len+1 or never x flush failing or not" stubs="model transport at write_all/flush"
writer_named_harness!(c11_std_writer_named, 13);
//@ tier=quick class=core cap=900 bounds="std::io: all (u16, bytes 0..=4) values x writer failure at every offset: only a prefix reaches the writer" stubs="model transport at write_all/flush"
writer_prefix_harness!(c11_std_writer_prefix, 12);
//@ tier=thorough class=best cap=2400 bounds="std::io DEFAULT read_exact loop: every input 0..=5 as (u16,&[u8]) delivered in nondeterministic short reads" stubs="Read::read = nondeterministic short pieces"
short_reader_harness!(c11_std_short_reads, NumBytes, 5, 9);
