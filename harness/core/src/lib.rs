//! Kani harnesses over postcard's core crate.  Every `#[kani::proof]` here is registered through the
//! `//@ key=value` annotation line directly above it (parsed by /verif/bin/check).
#![allow(dead_code, unused_imports, clippy::all)]

#[path = "../../common/spec.rs"]
pub mod spec;
#[path = "../../common/cobs_ref.rs"]
pub mod cobs_ref;
#[path = "../../common/crc_ref.rs"]
pub mod crc_ref;

pub mod types;

#[cfg(kani)]
#[macro_use]
#[path = "../../common/c11_body.rs"]
pub mod c11_body;

#[cfg(kani)]
mod c01;
#[cfg(kani)]
mod c02;
#[cfg(kani)]
mod c03;
#[cfg(kani)]
mod c04;
#[cfg(kani)]
mod c05;
#[cfg(kani)]
mod c06;
#[cfg(kani)]
mod c07;
#[cfg(kani)]
mod c08;
#[cfg(kani)]
mod c10;
#[cfg(kani)]
mod c11;
#[cfg(kani)]
mod c12;
pub mod c12_gen;
#[cfg(kani)]
mod c20;
#[cfg(kani)]
mod c13;

/// a byte slice serialised through serialize_bytes (helper shared by harness modules)
#[derive(serde::Serialize)]
pub struct BytesSer<'a>(#[serde(with = "crate::types::bytes_as_bytes")] pub &'a [u8]);
pub fn c07_bytes_ser(b: &[u8]) -> BytesSer<'_> {
    BytesSer(b)
}
