//! C20 — stacked flavours compose as byte-stream transformers.
use crate::c01::any_bytes;
use crate::cobs_ref::*;
use crate::crc_ref::*;
use crate::types::*;
use postcard::ser_flavors::crc::CrcModifier;
use postcard::ser_flavors::{AllocVec, Cobs, Flavor, HVec, Slice};
use serde::{Deserialize, Serialize};

static C16: crc::Crc<u16> = crc::Crc::<u16>::new(&crc::CRC_16_IBM_SDLC);
static C32: crc::Crc<u32> = crc::Crc::<u32>::new(&crc::CRC_32_ISCSI);

/// reference: COBS( plain ++ le(crc16(plain)) ) ++ 00
fn crc16_then_cobs(plain: &[u8], out: &mut [u8; 40]) -> usize {
    let mut inner = [0u8; 32];
    let mut i = 0;
    while i < plain.len() {
        inner[i] = plain[i];
        i += 1;
    }
    let c = crc_bitwise(&CRC_16_IBM_SDLC, plain) as u16;
    inner[plain.len()] = c as u8;
    inner[plain.len() + 1] = (c >> 8) as u8;
    let m = cobs_encode_into(&inner[..plain.len() + 2], &mut out[..]);
    out[m] = 0;
    m + 1
}

fn eq_prefix(a: &[u8], b: &[u8], n: usize) {
    assert!(a.len() == n, "output length differs from the reference transformation");
    let mut i = 0;
    while i < n {
        assert!(a[i] == b[i], "output differs from modifiers applied to the plain encoding in stack order");
        i += 1;
    }
}

/// checksum-then-COBS over ONE innermost storage per harness: output == COBS(plain ++ le(crc16(plain))) ++ 00
macro_rules! stack_crc_cobs {
    ($name:ident, $ty:ty, $cap:literal, $unwind:literal, $storage:ident) => {
        #[kani::proof]
        #[kani::unwind($unwind)]
        fn $name() {
            let v: $ty = kani::any();
            let mut pb = [0u8; $cap];
            let plain = postcard::to_slice(&v, &mut pb).unwrap();
            let mut want = [0u8; 40];
            let m = crc16_then_cobs(plain, &mut want);
            stack_crc_cobs!(@run $storage, v, want, m, $cap);
            kani::cover!(plain.len() == $cap, "longest payload reachable");
        }
    };
    (@run slice, $v:ident, $want:ident, $m:ident, $cap:literal) => {
        let mut b1 = [0u8; $cap + 6];
        let o1 = postcard::serialize_with_flavor(&$v, CrcModifier::new(Cobs::try_new(Slice::new(&mut b1)).unwrap(), C16.digest())).unwrap();
        eq_prefix(o1, &$want, $m);
    };
    (@run hvec, $v:ident, $want:ident, $m:ident, $cap:literal) => {
        let o2: heapless::Vec<u8, 24> =
            postcard::serialize_with_flavor(&$v, CrcModifier::new(Cobs::try_new(HVec::<24>::new()).unwrap(), C16.digest())).unwrap();
        eq_prefix(&o2[..], &$want, $m);
    };
    (@run alloc, $v:ident, $want:ident, $m:ident, $cap:literal) => {
        let o3: Vec<u8> =
            postcard::serialize_with_flavor(&$v, CrcModifier::new(Cobs::try_new(AllocVec::new()).unwrap(), C16.digest())).unwrap();
        eq_prefix(&o3[..], &$want, $m);
        core::mem::forget(o3);
    };
}
//@ tier=quick class=core cap=1200 bounds="all u16 values: CrcModifier<u16> over Cobs over Slice == COBS(plain++crc16)++00 (reference COBS, bitwise CRC)"
stack_crc_cobs!(c20_crc_cobs_slice_u16, u16, 3, 10, slice);
//@ tier=quick class=core cap=1200 bounds="all u16 values: same stack over HVec<24>"
stack_crc_cobs!(c20_crc_cobs_hvec_u16, u16, 3, 10, hvec);
//@ tier=thorough class=best cap=1800 bounds="all u16 values: same stack over AllocVec (heap)"
stack_crc_cobs!(c20_crc_cobs_alloc_u16, u16, 3, 10, alloc);
//@ tier=thorough class=core cap=2400 bounds="all u32 values: stack over Slice"
stack_crc_cobs!(c20_crc_cobs_slice_u32, u32, 5, 12, slice);
//@ tier=thorough class=best cap=2400 bounds="all Named values: stack over Slice"
stack_crc_cobs!(c20_crc_cobs_slice_named, Named, 9, 16, slice);

#[kani::proof]
#[kani::unwind(10)]
//@ tier=quick class=core cap=1200 bounds="all u16 values: undoing the layers in reverse order (COBS decode, then CRC check) recovers the value"
fn c20_undo_layers_u16() {
    let v: u16 = kani::any();
    let mut b1 = [0u8; 9];
    let o1 = postcard::serialize_with_flavor(&v, CrcModifier::new(Cobs::try_new(Slice::new(&mut b1)).unwrap(), C16.digest())).unwrap();
    let m = o1.len();
    let dn = cobs::decode_in_place(&mut o1[..m]).unwrap();
    let back: u16 = postcard::de_flavors::crc::from_bytes_u16(&o1[..dn], C16.digest()).unwrap();
    assert!(back == v, "undoing COBS then CRC does not recover the value");
    kani::cover!(m == 7, "longest frame reachable");
}

#[kani::proof]
#[kani::unwind(12)]
//@ tier=quick class=core cap=1200 bounds="all u32 values: single modifiers over two storages equal the reference transform (Cobs over Slice and HVec)"
fn c20_single_cobs_u32() {
    let v: u32 = kani::any();
    let mut pb = [0u8; 5];
    let plain = postcard::to_slice(&v, &mut pb).unwrap();
    let e = cobs_encode(plain);
    let mut b1 = [0u8; 8];
    let o1 = postcard::serialize_with_flavor(&v, Cobs::try_new(Slice::new(&mut b1)).unwrap()).unwrap();
    assert!(o1.len() == e.n + 1 && o1[e.n] == 0);
    eq_prefix(&o1[..e.n], &e.b, e.n);
    let o2: heapless::Vec<u8, 8> = postcard::serialize_with_flavor(&v, Cobs::try_new(HVec::<8>::new()).unwrap()).unwrap();
    assert!(o2.len() == e.n + 1 && o2[e.n] == 0);
    eq_prefix(&o2[..e.n], &e.b, e.n);
    kani::cover!(plain.len() == 5, "longest payload reachable");
}

#[kani::proof]
#[kani::unwind(12)]
//@ tier=quick class=core cap=1200 bounds="all u32 values: CrcModifier<u32> over HVec equals plain ++ le(crc32) (bitwise reference)"
fn c20_single_crc_u32() {
    let v: u32 = kani::any();
    let mut pb = [0u8; 5];
    let plain = postcard::to_slice(&v, &mut pb).unwrap();
    let n = plain.len();
    let c = crc_bitwise(&CRC_32_ISCSI, plain) as u32;
    let o3: heapless::Vec<u8, 12> = postcard::serialize_with_flavor(&v, CrcModifier::new(HVec::<12>::new(), C32.digest())).unwrap();
    assert!(o3.len() == n + 4);
    eq_prefix(&o3[..n], plain, n);
    assert!(o3[n] == c as u8 && o3[n + 1] == (c >> 8) as u8 && o3[n + 2] == (c >> 16) as u8 && o3[n + 3] == (c >> 24) as u8);
    kani::cover!(n == 5, "longest payload reachable");
}

#[kani::proof]
#[kani::unwind(12)]
//@ tier=quick class=core cap=900 bounds="all u16 values x every slice capacity 0..=8: whenever CrcModifier<u32> over Slice returns Ok the output is the COMPLETE plain ++ le(crc32); too-small capacity is an error"
fn c20_crc_over_bounded_slice() {
    let v: u16 = kani::any();
    let mut pb = [0u8; 3];
    let plain = postcard::to_slice(&v, &mut pb).unwrap();
    let n = plain.len();
    let c = crc_bitwise(&CRC_32_ISCSI, plain) as u32;
    let mut buf = [0u8; 8];
    let cap: usize = kani::any();
    kani::assume(cap <= 8);
    let r = postcard::serialize_with_flavor(&v, CrcModifier::new(Slice::new(&mut buf[..cap]), C32.digest()));
    match r {
        Ok(out) => {
            assert!(out.len() == n + 4, "Ok although the output is not the complete transformation of the plain bytes");
            eq_prefix(&out[..n], plain, n);
            assert!(out[n] == c as u8 && out[n + 1] == (c >> 8) as u8 && out[n + 2] == (c >> 16) as u8 && out[n + 3] == (c >> 24) as u8);
            assert!(cap >= n + 4);
        }
        Err(e) => {
            assert!(cap < n + 4, "failed although the capacity suffices");
            assert!(matches!(e, postcard::Error::SerializeBufferFull));
        }
    }
    kani::cover!(cap == n + 3, "capacity one byte short of the checksum");
    kani::cover!(cap == n + 4, "exact fit");
}

/// A user-supplied flavour that records what it is given (fixed-array log).
struct Recorder<const OVERRIDE: bool> {
    log: [u8; 24],
    n: usize,
    pushes: usize,
    extends: usize,
    finalized: usize,
}
impl<const OVERRIDE: bool> Recorder<OVERRIDE> {
    fn new() -> Self {
        Recorder { log: [0; 24], n: 0, pushes: 0, extends: 0, finalized: 0 }
    }
}
struct RecOut {
    log: [u8; 24],
    n: usize,
    pushes: usize,
    extends: usize,
}
impl Flavor for Recorder<false> {
    type Output = RecOut;
    fn try_push(&mut self, b: u8) -> postcard::Result<()> {
        if self.n >= 24 {
            return Err(postcard::Error::SerializeBufferFull);
        }
        self.log[self.n] = b;
        self.n += 1;
        self.pushes += 1;
        Ok(())
    }
    fn finalize(self) -> postcard::Result<RecOut> {
        Ok(RecOut { log: self.log, n: self.n, pushes: self.pushes, extends: self.extends })
    }
}
impl Flavor for Recorder<true> {
    type Output = RecOut;
    fn try_push(&mut self, b: u8) -> postcard::Result<()> {
        if self.n >= 24 {
            return Err(postcard::Error::SerializeBufferFull);
        }
        self.log[self.n] = b;
        self.n += 1;
        self.pushes += 1;
        Ok(())
    }
    fn try_extend(&mut self, data: &[u8]) -> postcard::Result<()> {
        if self.n + data.len() > 24 {
            return Err(postcard::Error::SerializeBufferFull);
        }
        let mut i = 0;
        while i < data.len() {
            self.log[self.n + i] = data[i];
            i += 1;
        }
        self.n += data.len();
        self.extends += 1;
        Ok(())
    }
    fn finalize(self) -> postcard::Result<RecOut> {
        Ok(RecOut { log: self.log, n: self.n, pushes: self.pushes, extends: self.extends })
    }
}

macro_rules! recorder {
    ($name:ident, $mk:expr, $cap:literal, $unwind:literal) => {
        #[kani::proof]
        #[kani::unwind($unwind)]
        fn $name() {
            let mut store = [0u8; 4];
            let v = ($mk)(&mut store);
            let mut pb = [0u8; $cap];
            let plain = postcard::to_slice(&v, &mut pb).unwrap();
            let n = plain.len();
            // push-only flavour: the default try_extend must forward every byte, in order
            let r1 = postcard::serialize_with_flavor(&v, Recorder::<false>::new()).unwrap();
            assert!(r1.n == n && r1.pushes == n, "push-only flavour did not receive exactly the plain encoding");
            eq_prefix(&r1.log[..r1.n], plain, n);
            // flavour with a block-write override
            let r2 = postcard::serialize_with_flavor(&v, Recorder::<true>::new()).unwrap();
            assert!(r2.n == n, "overriding flavour did not receive exactly the plain encoding");
            eq_prefix(&r2.log[..r2.n], plain, n);
            kani::cover!(n == $cap, "longest payload reachable");
            kani::cover!(r2.extends > 0 && r2.pushes > 0, "both push and extend paths used");
        }
    };
}
//@ tier=quick class=core cap=900 bounds="all Named values: recording user flavour (push-only and with try_extend override) receives exactly the plain encoding, in order"
recorder!(c20_recorder_named, |_s: &mut [u8; 4]| kani::any::<Named>(), 9, 13);
//@ tier=thorough class=core cap=1800 bounds="all (u8, byte array 0..=4, f32) values: recorder sees push + extend paths"
recorder!(c20_recorder_mixed, |s: &mut [u8; 4]| {
    #[derive(Serialize)]
    struct M<'a>(u8, #[serde(with = "crate::types::bytes_as_bytes")] &'a [u8], f32);
    let b: &[u8] = any_bytes(s);
    let b: &'static [u8] = unsafe { core::mem::transmute(b) };
    M(kani::any(), b, f32::from_bits(kani::any()))
}, 10, 14);
