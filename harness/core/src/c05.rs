//! C05 — bounded-buffer serialisation: Ok exactly when capacity >= complete output length,
//! output at the front of the buffer, rest untouched, Err(SerializeBufferFull) otherwise, never a
//! write outside the buffer (CBMC pointer checks), serialized_size exact.
use crate::c01::any_bytes;
use crate::cobs_ref::*;
use crate::crc_ref::*;
use crate::types::*;
use serde::{Deserialize, Serialize};

static CRC16: crc::Crc<u16> = crc::Crc::<u16>::new(&crc::CRC_16_IBM_SDLC);
static CRC32: crc::Crc<u32> = crc::Crc::<u32>::new(&crc::CRC_32_ISCSI);

const BACK: usize = 24;

/// Framing applied by the entry point under test.
#[derive(Clone, Copy, PartialEq)]
pub enum Framing {
    Plain,
    Cobs,
    Crc16,
    Crc32,
}

/// expected complete output for `plain` under `f`, from the reference transforms
fn expected(f: Framing, plain: &[u8], out: &mut [u8; 40]) -> usize {
    match f {
        Framing::Plain => {
            let mut i = 0;
            while i < plain.len() {
                out[i] = plain[i];
                i += 1;
            }
            plain.len()
        }
        Framing::Cobs => {
            let e = cobs_encode(plain);
            let mut i = 0;
            while i < e.n {
                out[i] = e.b[i];
                i += 1;
            }
            out[e.n] = 0;
            e.n + 1
        }
        Framing::Crc16 => {
            let mut i = 0;
            while i < plain.len() {
                out[i] = plain[i];
                i += 1;
            }
            let c = crc_bitwise(&CRC_16_IBM_SDLC, plain) as u16;
            out[plain.len()] = c as u8;
            out[plain.len() + 1] = (c >> 8) as u8;
            plain.len() + 2
        }
        Framing::Crc32 => {
            let mut i = 0;
            while i < plain.len() {
                out[i] = plain[i];
                i += 1;
            }
            let c = crc_bitwise(&CRC_32_ISCSI, plain) as u32;
            let mut k = 0;
            while k < 4 {
                out[plain.len() + k] = (c >> (8 * k)) as u8;
                k += 1;
            }
            plain.len() + 4
        }
    }
}

/// The slice-storage check, generic over value and framing.
pub fn slice_threshold<T: Serialize>(v: &T, f: Framing, maxplain: usize) -> (usize, usize, bool) {
    // unbounded reference: plain bytes in an ample buffer
    let mut big = [0u8; 40];
    let plain_len = postcard::to_slice(v, &mut big[..32]).unwrap().len();
    assert!(plain_len <= maxplain);
    let mut want = [0u8; 40];
    let m = expected(f, &big[..plain_len], &mut want);
    // size-measuring call reports the plain length and writes nothing
    assert!(postcard::experimental::serialized_size(v).unwrap() == plain_len);

    let mut backing: [u8; BACK] = kani::any();
    let orig = backing;
    let c: usize = kani::any();
    kani::assume(c <= m + 2 && c <= BACK);
    let base = backing.as_ptr();
    let r = {
        let buf = &mut backing[..c];
        match f {
            Framing::Plain => postcard::to_slice(v, buf).map(|o| (o.as_ptr(), o.len())),
            Framing::Cobs => postcard::to_slice_cobs(v, buf).map(|o| (o.as_ptr(), o.len())),
            Framing::Crc16 => postcard::ser_flavors::crc::to_slice_u16(v, buf, CRC16.digest()).map(|o| (o.as_ptr(), o.len())),
            Framing::Crc32 => postcard::to_slice_crc32(v, buf, CRC32.digest()).map(|o| (o.as_ptr(), o.len())),
        }
    };
    match r {
        Ok((p, len)) => {
            assert!(c >= m, "succeeded although the capacity is below the complete output length");
            assert!(p == base, "output is not at the front of the buffer");
            assert!(len == m);
            let mut i = 0;
            while i < m {
                assert!(backing[i] == want[i], "bytes differ from unbounded serialisation / reference framing");
                i += 1;
            }
            let mut i = m;
            while i < BACK {
                assert!(backing[i] == orig[i], "bytes after the output were modified");
                i += 1;
            }
        }
        Err(ref e) => {
            assert!(c < m, "failed although the capacity suffices");
            assert!(matches!(e, postcard::Error::SerializeBufferFull));
            let mut i = c;
            while i < BACK {
                assert!(backing[i] == orig[i], "bytes outside the buffer were modified");
                i += 1;
            }
        }
    }
    (m, c, r.is_ok())
}

macro_rules! threshold {
    ($name:ident, $ty:ty, $framing:expr, $maxplain:literal, $unwind:literal) => {
        #[kani::proof]
        #[kani::unwind($unwind)]
        fn $name() {
            let v: $ty = kani::any();
            let (m, c, ok) = slice_threshold(&v, $framing, $maxplain);
            kani::cover!(ok && c == m, "exact fit succeeds");
            kani::cover!(!ok && c + 1 == m, "one byte short fails");
            kani::cover!(!ok && c == 0, "zero capacity fails");
        }
    };
}

//@ tier=quick class=core cap=600 bounds="all Named values x capacity 0..=len+2 x 24-byte symbolic backing; plain"
threshold!(c05_slice_plain_named, Named, Framing::Plain, 9, 27);
//@ tier=quick class=core cap=600 bounds="all u64 values x capacity 0..=len+2; plain"
threshold!(c05_slice_plain_u64, u64, Framing::Plain, 10, 27);
//@ tier=thorough class=core cap=900 bounds="all E4 values x capacity 0..=len+2; plain"
threshold!(c05_slice_plain_enum4, E4, Framing::Plain, 12, 27);
//@ tier=quick class=core cap=900 bounds="all u32 values x capacity 0..=len+2; COBS (vs reference COBS)"
threshold!(c05_slice_cobs_u32, u32, Framing::Cobs, 5, 27);
//@ tier=thorough class=core cap=2400 bounds="all Named values x capacity 0..=len+2; COBS (vs reference COBS)"
threshold!(c05_slice_cobs_named, Named, Framing::Cobs, 9, 27);
//@ tier=thorough class=core cap=900 bounds="all u64 values x capacity; COBS"
threshold!(c05_slice_cobs_u64, u64, Framing::Cobs, 10, 27);
//@ tier=quick class=core cap=900 bounds="all u32 values x capacity; CRC-16 (vs bitwise reference CRC)"
threshold!(c05_slice_crc16_u32, u32, Framing::Crc16, 5, 27);
//@ tier=thorough class=core cap=900 bounds="all u32 values x capacity; CRC-32"
threshold!(c05_slice_crc32_u32, u32, Framing::Crc32, 5, 27);

#[kani::proof]
#[kani::unwind(27)]
//@ tier=quick class=core cap=600 bounds="every byte array 0..=4 x capacity 0..=len+2; plain (try_extend block path)"
fn c05_slice_plain_bytes() {
    #[derive(Serialize)]
    struct B<'a>(#[serde(with = "crate::types::bytes_as_bytes")] &'a [u8]);
    let mut store = [0u8; 4];
    let s = any_bytes(&mut store);
    let (m, c, ok) = slice_threshold(&B(s), Framing::Plain, 5);
    kani::cover!(ok && c == m && m == 5, "exact fit succeeds");
    kani::cover!(!ok && c + 1 == m, "one byte short fails");
}

#[kani::proof]
#[kani::unwind(27)]
//@ tier=thorough class=core cap=900 bounds="every byte array 0..=4 x capacity; COBS"
fn c05_slice_cobs_bytes() {
    #[derive(Serialize)]
    struct B<'a>(#[serde(with = "crate::types::bytes_as_bytes")] &'a [u8]);
    let mut store = [0u8; 4];
    let s = any_bytes(&mut store);
    let (m, c, ok) = slice_threshold(&B(s), Framing::Cobs, 5);
    kani::cover!(ok && c == m, "exact fit succeeds");
    kani::cover!(!ok && c + 1 == m, "one byte short fails");
}

#[kani::proof]
#[kani::unwind(27)]
//@ tier=thorough class=core cap=300 bounds="unit value: zero-length output fits capacity 0"
fn c05_slice_plain_unit() {
    let (m, _c, ok) = slice_threshold(&(), Framing::Plain, 0);
    assert!(m == 0 && ok);
    kani::cover!(true, "reached");
}

/// heapless storage: capacity is a const generic, so every capacity 0..=12 is its own instantiation.
macro_rules! hvec_caps {
    ($v:expr, $n:expr, $reference:expr, $call:ident, $extra:expr, [$($c:literal),*]) => {
        $(
            {
                let r: Result<heapless::Vec<u8, $c>, postcard::Error> = postcard::$call($v);
                match r {
                    Ok(out) => {
                        assert!($c >= $n + $extra, "succeeded although the capacity is too small");
                        assert!(out.len() == $n + $extra);
                        if $extra == 0 {
                            let mut i = 0;
                            while i < $n {
                                assert!(out[i] == $reference[i]);
                                i += 1;
                            }
                        }
                    }
                    Err(e) => {
                        assert!($c < $n + $extra, "failed although the capacity suffices");
                        assert!(matches!(e, postcard::Error::SerializeBufferFull));
                    }
                }
            }
        )*
    };
}

#[kani::proof]
#[kani::unwind(8)]
//@ tier=quick class=core cap=900 bounds="all u32 values x heapless::Vec<u8,C> for every C in 0..=6; plain"
fn c05_hvec_plain_u32() {
    let v: u32 = kani::any();
    let mut big = [0u8; 8];
    let reference = postcard::to_slice(&v, &mut big).unwrap();
    let n = reference.len();
    hvec_caps!(&v, n, reference, to_vec, 0usize, [0, 1, 2, 3, 4, 5, 6]);
    kani::cover!(n == 5, "longest encoding reachable");
}

#[kani::proof]
#[kani::unwind(13)]
//@ tier=thorough class=core cap=1800 bounds="all u64 values x heapless::Vec<u8,C> for every C in 0..=11; plain"
fn c05_hvec_plain_u64() {
    let v: u64 = kani::any();
    let mut big = [0u8; 12];
    let reference = postcard::to_slice(&v, &mut big).unwrap();
    let n = reference.len();
    hvec_caps!(&v, n, reference, to_vec, 0usize, [0, 1, 2, 3, 4, 5, 6, 7, 8, 9, 10, 11]);
    kani::cover!(n == 10, "longest encoding reachable");
}

#[kani::proof]
#[kani::unwind(13)]
//@ tier=thorough class=core cap=1800 bounds="all Named values x heapless::Vec<u8,C> for every C in 0..=10; plain"
fn c05_hvec_plain_named() {
    let v: Named = kani::any();
    let mut big = [0u8; 12];
    let reference = postcard::to_slice(&v, &mut big).unwrap();
    let n = reference.len();
    hvec_caps!(&v, n, reference, to_vec, 0usize, [0, 1, 2, 3, 4, 5, 6, 7, 8, 9, 10]);
    kani::cover!(n == 9, "longest encoding reachable");
}

#[kani::proof]
#[kani::unwind(13)]
//@ tier=thorough class=core cap=1800 bounds="all u32 values x heapless::Vec<u8,C> for every C in 0..=8; COBS (length n+2 for n<254)"
fn c05_hvec_cobs_u32() {
    let v: u32 = kani::any();
    let mut big = [0u8; 12];
    let reference = postcard::to_slice(&v, &mut big).unwrap();
    let n = reference.len();
    hvec_caps!(&v, n, reference, to_vec_cobs, 2usize, [0, 1, 2, 3, 4, 5, 6, 7, 8]);
    kani::cover!(n == 5, "longest encoding reachable");
}

#[kani::proof]
#[kani::unwind(8)]
//@ tier=quick class=core cap=900 bounds="every (u8, byte array 0..=2) value x heapless::Vec<u8,C> for every C in 0..=5 (incl. an EMPTY trailing block at exactly-full capacity)"
fn c05_hvec_plain_bytes() {
    #[derive(Serialize)]
    struct B<'a>(u8, #[serde(with = "crate::types::bytes_as_bytes")] &'a [u8]);
    let store: [u8; 2] = kani::any();
    let l: usize = kani::any();
    kani::assume(l <= 2);
    let v = B(kani::any(), &store[..l]);
    let mut big = [0u8; 8];
    let reference = postcard::to_slice(&v, &mut big).unwrap();
    let n = reference.len();
    hvec_caps!(&v, n, reference, to_vec, 0usize, [0, 1, 2, 3, 4, 5]);
    kani::cover!(l == 0, "empty trailing block reachable");
    kani::cover!(n == 4, "longest encoding reachable");
}

#[kani::proof]
#[kani::unwind(13)]
//@ tier=quick class=core cap=900 bounds="all Named values: growable vector, Extend sink and size counter never fail and agree with the slice output"
fn c05_unbounded_storages() {
    let v: Named = kani::any();
    let mut big = [0u8; 12];
    let reference = postcard::to_slice(&v, &mut big).unwrap();
    let n = reference.len();
    let av = postcard::to_allocvec(&v).unwrap();
    assert!(av.len() == n);
    let mut i = 0;
    while i < n {
        assert!(av[i] == reference[i]);
        i += 1;
    }
    core::mem::forget(av);
    let ev: heapless::Vec<u8, 12> = postcard::to_extend(&v, heapless::Vec::new()).unwrap();
    assert!(ev.len() == n);
    let sz = postcard::serialize_with_flavor(&v, postcard::ser_flavors::Size::default()).unwrap();
    assert!(sz == n);
    assert!(postcard::experimental::serialized_size(&v).unwrap() == n);
    kani::cover!(n == 9, "longest encoding reachable");
}
