//! C07 — COBS decoding of arbitrary bytes is total and agrees with the COBS definition.
//!
//! Every byte string of 0..=L bytes is given (on copies; the in-place mutation is part of the model)
//! to from_bytes_cobs and take_from_bytes_cobs.  Oracle: an independent COBS decoder of the first
//! frame followed by the REAL plain decoder on the decoded payload.
use crate::cobs_ref::*;
use serde::{Deserialize, Serialize};

#[derive(Deserialize, PartialEq, Debug)]
pub struct BytesD<'a>(#[serde(with = "crate::types::bytes_as_bytes")] pub &'a [u8]);

pub trait Same {
    fn same(&self, o: &Self) -> bool;
}
impl Same for () {
    fn same(&self, _o: &Self) -> bool {
        true
    }
}
impl Same for u8 {
    fn same(&self, o: &Self) -> bool {
        self == o
    }
}
impl Same for u16 {
    fn same(&self, o: &Self) -> bool {
        self == o
    }
}
impl Same for (u8, u8) {
    fn same(&self, o: &Self) -> bool {
        self == o
    }
}
impl Same for Option<u8> {
    fn same(&self, o: &Self) -> bool {
        self == o
    }
}
impl<'a> Same for BytesD<'a> {
    fn same(&self, o: &Self) -> bool {
        if self.0.len() != o.0.len() {
            return false;
        }
        let mut i = 0;
        while i < self.0.len() {
            if self.0[i] != o.0[i] {
                return false;
            }
            i += 1;
        }
        true
    }
}

macro_rules! cobs_total {
    ($name:ident, $ty:ty, $len:literal, $unwind:literal) => {
        #[kani::proof]
        #[kani::unwind($unwind)]
        fn $name() {
            let orig: [u8; $len] = kani::any();
            let n: usize = kani::any();
            kani::assume(n <= $len);
            let r = cobs_decode_first(&orig[..n]);
            // what plain decoding of the standard-COBS-decoded payload yields
            let expect: Option<postcard::Result<$ty>> =
                if r.ok { Some(postcard::from_bytes::<$ty>(&r.payload[..r.plen])) } else { None };

            // ---- from_bytes_cobs
            let mut c1 = orig;
            let got1 = postcard::from_bytes_cobs::<$ty>(&mut c1[..n]);
            match (&expect, &got1) {
                (None, Err(e)) => assert!(matches!(e, postcard::Error::DeserializeBadEncoding), "ill-formed COBS must be bad-encoding"),
                (None, Ok(_)) => assert!(false, "ill-formed COBS accepted"),
                (Some(Ok(a)), Ok(b)) => assert!(a.same(b), "value differs from plain decoding of the COBS payload"),
                (Some(Err(a)), Err(b)) => assert!(a == b, "error differs from plain decoding of the COBS payload"),
                _ => assert!(false, "accept/reject differs from plain decoding of the COBS payload"),
            }

            // ---- take_from_bytes_cobs
            let mut c2 = orig;
            let base = c2.as_ptr() as usize;
            let got2 = postcard::take_from_bytes_cobs::<$ty>(&mut c2[..n]);
            let after = r.frame_len + if r.had_sentinel { 1 } else { 0 };
            match (&expect, &got2) {
                (None, Err(e)) => assert!(matches!(e, postcard::Error::DeserializeBadEncoding)),
                (None, Ok(_)) => assert!(false, "ill-formed COBS accepted"),
                (Some(Ok(a)), Ok((b, rest))) => {
                    assert!(a.same(b));
                    assert!(rest.as_ptr() as usize == base + after, "remainder does not begin right after the frame's sentinel");
                    assert!(rest.len() == n - after);
                    let mut i = 0;
                    while i < rest.len() {
                        assert!(rest[i] == orig[after + i], "bytes after the frame were modified");
                        i += 1;
                    }
                }
                (Some(Err(a)), Err(b)) => assert!(a == b),
                _ => assert!(false, "accept/reject differs from plain decoding of the COBS payload"),
            }
            let ok1 = got1.is_ok();
            drop(got1);
            drop(got2);
            // whatever happened, bytes after the first frame (+ sentinel) are untouched
            let mut i = after;
            while i < $len {
                assert!(c1[i] == orig[i] && c2[i] == orig[i], "bytes outside the frame were modified");
                i += 1;
            }
            kani::cover!(ok1 && n == $len, "a full-length input decodes");
            kani::cover!(!r.ok, "an ill-formed frame exists");
            kani::cover!(r.ok && r.had_sentinel && after < n, "bytes follow the first frame");
        }
    };
}

//@ tier=quick class=core cap=900 bounds="every byte string of 0..=6 bytes as u16"
cobs_total!(c07_cobs_u16_6, u16, 6, 10);
//@ tier=quick class=core cap=900 bounds="every byte string of 0..=6 bytes as a byte array (borrowing from the decoded buffer)"
cobs_total!(c07_cobs_bytes_6, BytesD, 6, 10);
//@ tier=thorough class=core cap=2400 bounds="every byte string of 0..=8 bytes as u16"
cobs_total!(c07_cobs_u16_8, u16, 8, 12);
//@ tier=thorough class=core cap=2400 bounds="every byte string of 0..=8 bytes as (u8,u8)"
cobs_total!(c07_cobs_pair_8, (u8, u8), 8, 12);
//@ tier=thorough class=core cap=2400 bounds="every byte string of 0..=8 bytes as a byte array"
cobs_total!(c07_cobs_bytes_8, BytesD, 8, 12);
//@ tier=thorough class=core cap=2400 bounds="every byte string of 0..=8 bytes as Option<u8>"
cobs_total!(c07_cobs_option_8, Option<u8>, 8, 12);
