//! C10 — CRC framing appends the right checksum and never accepts a wrong one.
use crate::crc_ref::*;
use crate::types::*;
use serde::{Deserialize, Serialize};

static C8: crc::Crc<u8> = crc::Crc::<u8>::new(&crc::CRC_8_SMBUS);
static C16: crc::Crc<u16> = crc::Crc::<u16>::new(&crc::CRC_16_IBM_SDLC);
static C16X: crc::Crc<u16> = crc::Crc::<u16>::new(&crc::CRC_16_XMODEM);
static C32: crc::Crc<u32> = crc::Crc::<u32>::new(&crc::CRC_32_ISCSI);
static C32H: crc::Crc<u32> = crc::Crc::<u32>::new(&crc::CRC_32_ISO_HDLC);
static C64: crc::Crc<u64> = crc::Crc::<u64>::new(&crc::CRC_64_ECMA_182);
static C64X: crc::Crc<u64> = crc::Crc::<u64>::new(&crc::CRC_64_XZ);
static C128: crc::Crc<u128> = crc::Crc::<u128>::new(&crc::CRC_82_DARC);

/// (i) framed output = plain ++ le(checksum(plain)), three storages agree, decoding returns v and the tail
macro_rules! frame_ok {
    ($name:ident, $ty:ty, $w:ty, $crc:ident, $oracle:expr, $to_slice:ident, $to_vec:ident, $to_allocvec:ident, $take:ident, $from:ident, $cap:literal, $unwind:literal) => {
        #[kani::proof]
        #[kani::unwind($unwind)]
        fn $name() {
            const W: usize = core::mem::size_of::<$w>();
            let v: $ty = kani::any();
            let mut pb = [0u8; $cap];
            let plain = postcard::to_slice(&v, &mut pb).unwrap();
            let n = plain.len();
            let mut fb = [0u8; $cap + W + 1];
            let flen = postcard::ser_flavors::crc::$to_slice(&v, &mut fb[..$cap + W], $crc.digest()).unwrap().len();
            assert!(flen == n + W, "framed length is not plain + width");
            let mut i = 0;
            while i < n {
                assert!(fb[i] == plain[i], "payload bytes differ from the plain encoding");
                i += 1;
            }
            let want: $w = ($oracle)(plain);
            let wb = want.to_le_bytes();
            let mut i = 0;
            while i < W {
                assert!(fb[n + i] == wb[i], "checksum bytes are not the little-endian checksum of the plain encoding");
                i += 1;
            }
            let hv: heapless::Vec<u8, { $cap + W }> = postcard::ser_flavors::crc::$to_vec(&v, $crc.digest()).unwrap();
            assert!(hv.len() == flen);
            let mut i = 0;
            while i < flen {
                assert!(hv[i] == fb[i]);
                i += 1;
            }
            let av = postcard::ser_flavors::crc::$to_allocvec(&v, $crc.digest()).unwrap();
            assert!(av.len() == flen);
            let mut i = 0;
            while i < flen {
                assert!(av[i] == fb[i]);
                i += 1;
            }
            core::mem::forget(av);
            // decode: value and the bytes after the checksum
            let tail: u8 = kani::any();
            fb[flen] = tail;
            let (back, rest): ($ty, &[u8]) = postcard::de_flavors::crc::$take(&fb[..flen + 1], $crc.digest()).unwrap();
            assert!(back == v);
            assert!(rest.len() == 1 && rest[0] == tail);
            let back2: $ty = postcard::de_flavors::crc::$from(&fb[..flen], $crc.digest()).unwrap();
            assert!(back2 == v);
            kani::cover!(n == $cap, "longest payload reachable");
        }
    };
}

/// same claim through the slice entry point only (smaller query for wide CRCs / composite values)
macro_rules! frame_ok_slice {
    ($name:ident, $ty:ty, $w:ty, $crc:ident, $oracle:expr, $to_slice:ident, $take:ident, $cap:literal, $unwind:literal) => {
        #[kani::proof]
        #[kani::unwind($unwind)]
        fn $name() {
            const W: usize = core::mem::size_of::<$w>();
            let v: $ty = kani::any();
            let mut pb = [0u8; $cap];
            let plain = postcard::to_slice(&v, &mut pb).unwrap();
            let n = plain.len();
            let mut fb = [0u8; $cap + W + 1];
            let flen = postcard::ser_flavors::crc::$to_slice(&v, &mut fb[..$cap + W], $crc.digest()).unwrap().len();
            assert!(flen == n + W, "framed length is not plain + width");
            let mut i = 0;
            while i < n {
                assert!(fb[i] == plain[i], "payload bytes differ from the plain encoding");
                i += 1;
            }
            let want: $w = ($oracle)(plain);
            let wb = want.to_le_bytes();
            let mut i = 0;
            while i < W {
                assert!(fb[n + i] == wb[i], "checksum bytes are not the little-endian checksum of the plain encoding");
                i += 1;
            }
            let tail: u8 = kani::any();
            fb[flen] = tail;
            let (back, rest): ($ty, &[u8]) = postcard::de_flavors::crc::$take(&fb[..flen + 1], $crc.digest()).unwrap();
            assert!(back == v);
            assert!(rest.len() == 1 && rest[0] == tail);
            kani::cover!(n == $cap, "longest payload reachable");
        }
    };
}

//@ tier=quick class=core cap=900 bounds="all u16 values, CRC-8/SMBUS vs bitwise reference; slice/heapless/alloc storages; decode back with 1-byte tail"
frame_ok!(c10_frame_u8_u16, u16, u8, C8, |p: &[u8]| crc_bitwise(&CRC_8_SMBUS, p) as u8, to_slice_u8, to_vec_u8, to_allocvec_u8, take_from_bytes_u8, from_bytes_u8, 3, 12);
//@ tier=quick class=core cap=900 bounds="all u16 values, CRC-16/IBM-SDLC vs bitwise reference"
frame_ok!(c10_frame_u16_u16, u16, u16, C16, |p: &[u8]| crc_bitwise(&CRC_16_IBM_SDLC, p) as u16, to_slice_u16, to_vec_u16, to_allocvec_u16, take_from_bytes_u16, from_bytes_u16, 3, 12);
//@ tier=quick class=core cap=900 bounds="all u16 values, CRC-32/ISCSI vs bitwise reference"
frame_ok!(c10_frame_u32_u16, u16, u32, C32, |p: &[u8]| crc_bitwise(&CRC_32_ISCSI, p) as u32, to_slice_u32, to_vec_u32, to_allocvec_u32, take_from_bytes_u32, from_bytes_u32, 3, 12);
//@ tier=thorough class=core cap=1800 bounds="all u16 values, CRC-32/ISO-HDLC vs bitwise reference"
frame_ok!(c10_frame_u32h_u16, u16, u32, C32H, |p: &[u8]| crc_bitwise(&CRC_32_ISO_HDLC, p) as u32, to_slice_u32, to_vec_u32, to_allocvec_u32, take_from_bytes_u32, from_bytes_u32, 3, 12);
//@ tier=thorough class=core cap=1800 bounds="all u16 values, CRC-16/XMODEM (non-reflected) vs bitwise reference"
frame_ok!(c10_frame_u16x_u16, u16, u16, C16X, |p: &[u8]| crc_bitwise(&CRC_16_XMODEM, p) as u16, to_slice_u16, to_vec_u16, to_allocvec_u16, take_from_bytes_u16, from_bytes_u16, 3, 12);
//@ tier=quick class=core cap=1200 bounds="all u16 values, CRC-64/ECMA-182 vs bitwise reference"
frame_ok!(c10_frame_u64_u16, u16, u64, C64, |p: &[u8]| crc_bitwise(&CRC_64_ECMA_182, p), to_slice_u64, to_vec_u64, to_allocvec_u64, take_from_bytes_u64, from_bytes_u64, 3, 14);
//@ tier=thorough class=core cap=1800 bounds="all u16 values, CRC-64/XZ (reflected) vs bitwise reference"
frame_ok!(c10_frame_u64x_u16, u16, u64, C64X, |p: &[u8]| crc_bitwise(&CRC_64_XZ, p), to_slice_u64, to_vec_u64, to_allocvec_u64, take_from_bytes_u64, from_bytes_u64, 3, 14);
//@ tier=quick class=core cap=1800 bounds="all u8 values, 128-bit width (CRC-82/DARC), slice entry point; oracle = crc crate's one-shot checksum()"
frame_ok_slice!(c10_frame_u128_u8, u8, u128, C128, |p: &[u8]| C128.checksum(p), to_slice_u128, take_from_bytes_u128, 1, 20);
//@ tier=thorough class=core cap=2400 bounds="all Named values, CRC-32/ISCSI vs bitwise reference, slice entry point" class=best
frame_ok_slice!(c10_frame_u32_named, Named, u32, C32, |p: &[u8]| crc_bitwise(&CRC_32_ISCSI, p) as u32, to_slice_u32, take_from_bytes_u32, 9, 16);
//@ tier=thorough class=core cap=2400 bounds="all Named values, CRC-16/IBM-SDLC vs bitwise reference, slice entry point" class=best
frame_ok_slice!(c10_frame_u16_named, Named, u16, C16, |p: &[u8]| crc_bitwise(&CRC_16_IBM_SDLC, p) as u16, to_slice_u16, take_from_bytes_u16, 9, 16);

/// byte array payload (multi-byte take on the decoding side => digest must cover try_take_n)
#[derive(Serialize, Deserialize, PartialEq)]
struct Blob<'a>(#[serde(with = "crate::types::bytes_as_bytes")] &'a [u8]);

/// (ii) converse: whenever CRC-checked decoding succeeds on ANY input, the bytes consumed for the value
/// are followed by their correct little-endian checksum.
macro_rules! accept_implies_checksum {
    ($name:ident, $ty:ty, $w:ty, $crc:ident, $oracle:expr, $take:ident, $len:literal, $unwind:literal) => {
        #[kani::proof]
        #[kani::unwind($unwind)]
        fn $name() {
            const W: usize = core::mem::size_of::<$w>();
            let a: [u8; $len] = kani::any();
            let n: usize = kani::any();
            kani::assume(n <= $len);
            let s = &a[..n];
            let r = postcard::de_flavors::crc::$take::<$ty>(s, $crc.digest());
            if let Ok((_v, rest)) = &r {
                let consumed = n - rest.len();
                assert!(consumed >= W);
                let payload = &s[..consumed - W];
                let want: $w = ($oracle)(payload);
                let wb = want.to_le_bytes();
                let mut i = 0;
                while i < W {
                    assert!(s[consumed - W + i] == wb[i], "accepted a frame whose checksum bytes are wrong");
                    i += 1;
                }
                assert!(rest.as_ptr() as usize == s.as_ptr() as usize + consumed);
            }
            kani::cover!(r.is_ok(), "some input is accepted");
            kani::cover!(matches!(r, Err(postcard::Error::DeserializeBadCrc)), "some input fails the CRC");
        }
    };
}
//@ tier=quick class=core cap=900 bounds="every byte string 0..=5 as u16 + CRC-16/IBM-SDLC"
accept_implies_checksum!(c10_accept_u16_u16, u16, u16, C16, |p: &[u8]| crc_bitwise(&CRC_16_IBM_SDLC, p) as u16, take_from_bytes_u16, 5, 12);
//@ tier=quick class=core cap=1200 bounds="every byte string 0..=7 as byte array + CRC-32/ISCSI (digest over pop and over multi-byte take)"
accept_implies_checksum!(c10_accept_u32_blob, Blob, u32, C32, |p: &[u8]| crc_bitwise(&CRC_32_ISCSI, p) as u32, take_from_bytes_u32, 7, 12);
//@ tier=thorough class=core cap=1800 bounds="every byte string 0..=4 as u16 + CRC-8/SMBUS"
accept_implies_checksum!(c10_accept_u8_u16, u16, u8, C8, |p: &[u8]| crc_bitwise(&CRC_8_SMBUS, p) as u8, take_from_bytes_u8, 4, 12);
//@ tier=thorough class=core cap=2400 bounds="every byte string 0..=7 as u16 + CRC-32/ISCSI"
accept_implies_checksum!(c10_accept_u32_u16, u16, u32, C32, |p: &[u8]| crc_bitwise(&CRC_32_ISCSI, p) as u32, take_from_bytes_u32, 7, 12);
//@ tier=thorough class=core cap=3600 bounds="every byte string 0..=10 as u8 + CRC-64/XZ"
accept_implies_checksum!(c10_accept_u64_u8, u8, u64, C64X, |p: &[u8]| crc_bitwise(&CRC_64_XZ, p), take_from_bytes_u64, 10, 14);
//@ tier=thorough class=core cap=3600 bounds="every byte string 0..=18 as u8 + 128-bit width (oracle: crc crate one-shot)"
accept_implies_checksum!(c10_accept_u128_u8, u8, u128, C128, |p: &[u8]| C128.checksum(p), take_from_bytes_u128, 18, 22);

/// (iii) bursts: a frame of a symbolic fixed-length payload, XORed with a non-zero error pattern of
/// span <= width confined to the payload, must be rejected.
macro_rules! burst {
    ($name:ident, $w:ty, $crc:ident, $to_slice:ident, $from:ident, $plen:literal, $unwind:literal, $reflected:literal) => {
        #[kani::proof]
        #[kani::unwind($unwind)]
        fn $name() {
            const W: usize = core::mem::size_of::<$w>();
            let v: [u8; $plen] = kani::any();
            let mut fb = [0u8; $plen + W];
            let flen = postcard::ser_flavors::crc::$to_slice(&v, &mut fb, $crc.digest()).unwrap().len();
            assert!(flen == $plen + W);
            // error pattern: `pat` (non-zero, at most W*8 bits wide) shifted to bit offset `off` inside the payload
            let pat: $w = kani::any();
            kani::assume(pat != 0);
            let off: u32 = kani::any();
            kani::assume(off < ($plen * 8) as u32);
            // `wide` is the error pattern in TRANSMISSION order: bit p of `wide` is the p-th bit on the wire.
            // A reflected (LSB-first) CRC sends bit j of byte k at position 8k+j; an MSB-first CRC sends it
            // at 8k+(7-j), so there each mask byte is bit-reversed.  (A burst is contiguous on the wire, not
            // in the little-endian integer - getting this wrong makes the harness flag undetectable 16-bit
            // bursts under CRC-8/SMBUS; that was a harness error, see DESIGN.md §8.)
            let wide: u128 = (pat as u128) << off;
            // confined to the payload
            kani::assume((wide >> ($plen * 8)) == 0);
            let mut i = 0;
            while i < $plen {
                let m = (wide >> (8 * i)) as u8;
                fb[i] ^= if $reflected { m } else { m.reverse_bits() };
                i += 1;
            }
            let r: postcard::Result<[u8; $plen]> = postcard::de_flavors::crc::$from(&fb, $crc.digest());
            assert!(r.is_err(), "a burst error no longer than the CRC width went undetected");
            kani::cover!(off == 7, "burst straddling a byte boundary reachable");
        }
    };
}
//@ tier=quick class=core cap=900 bounds="2-byte payload x every non-zero burst of span <= 8 bits at every bit offset, CRC-8/SMBUS"
burst!(c10_burst_u8, u8, C8, to_slice_u8, from_bytes_u8, 2, 12, false);
//@ tier=quick class=core cap=900 bounds="2-byte payload x every non-zero 16-bit error pattern, CRC-16/IBM-SDLC"
burst!(c10_burst_u16, u16, C16, to_slice_u16, from_bytes_u16, 2, 12, true);
//@ tier=thorough class=core cap=2400 bounds="3-byte payload x every burst of span <= 16 bits at every offset, CRC-16/IBM-SDLC"
burst!(c10_burst_u16_p3, u16, C16, to_slice_u16, from_bytes_u16, 3, 12, true);
//@ tier=thorough class=core cap=3600 bounds="3-byte payload x every non-zero error pattern (<= 24 bits), CRC-32/ISCSI"
burst!(c10_burst_u32, u32, C32, to_slice_u32, from_bytes_u32, 3, 12, true);
//@ tier=thorough class=core cap=2400 bounds="2-byte payload x every burst of span <= 16 bits, CRC-16/XMODEM (MSB-first)"
burst!(c10_burst_u16x, u16, C16X, to_slice_u16, from_bytes_u16, 2, 12, false);
//@ tier=thorough class=core cap=3600 bounds="2-byte payload x every non-zero error pattern, CRC-64/XZ"
burst!(c10_burst_u64, u64, C64X, to_slice_u64, from_bytes_u64, 2, 14, true);

/// corruption confined to the checksum is always rejected (direct form of the converse)
#[kani::proof]
#[kani::unwind(12)]
//@ tier=quick class=core cap=900 bounds="all u16 values x every non-zero XOR pattern on the 4 checksum bytes, CRC-32/ISCSI"
fn c10_checksum_corruption_rejected() {
    let v: u16 = kani::any();
    let mut fb = [0u8; 7];
    let flen = postcard::to_slice_crc32(&v, &mut fb, C32.digest()).unwrap().len();
    let pat: u32 = kani::any();
    kani::assume(pat != 0);
    let pb = pat.to_le_bytes();
    let mut i = 0;
    while i < 4 {
        fb[flen - 4 + i] ^= pb[i];
        i += 1;
    }
    let r: postcard::Result<u16> = postcard::from_bytes_crc32(&fb[..flen], C32.digest());
    assert!(matches!(r, Err(postcard::Error::DeserializeBadCrc)));
    kani::cover!(flen == 7, "longest frame reachable");
}

/// the same for the widest checksum: every non-zero XOR pattern on the 16 checksum bytes
#[kani::proof]
#[kani::unwind(20)]
//@ tier=quick class=core cap=1800 bounds="all u8 values x every non-zero XOR pattern on the 16 checksum bytes, 128-bit width (CRC-82/DARC)"
fn c10_checksum_corruption_rejected_u128() {
    let v: u8 = kani::any();
    let mut fb = [0u8; 17];
    let flen = postcard::ser_flavors::crc::to_slice_u128(&v, &mut fb, C128.digest()).unwrap().len();
    assert!(flen == 17);
    let pat: u128 = kani::any();
    kani::assume(pat != 0);
    let pb = pat.to_le_bytes();
    let mut i = 0;
    while i < 16 {
        fb[1 + i] ^= pb[i];
        i += 1;
    }
    let r: postcard::Result<u8> = postcard::de_flavors::crc::from_bytes_u128(&fb, C128.digest());
    assert!(matches!(r, Err(postcard::Error::DeserializeBadCrc)), "corruption confined to the checksum was accepted");
    let r2 = postcard::de_flavors::crc::take_from_bytes_u128::<u8>(&fb, C128.digest());
    assert!(r2.is_err(), "corruption confined to the checksum was accepted");
    kani::cover!(pat >> 64 != 0 && pat as u64 == 0, "corruption only in the high checksum bytes reachable");
}
