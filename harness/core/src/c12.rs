//! C12 — POSTCARD_MAX_SIZE bounds the encoded size of every value; tight where the property says so.
use crate::c12_gen::*;
use crate::types::*;
use core::marker::PhantomData;
use core::num::*;
use core::ops::{Range, RangeFrom, RangeInclusive, RangeTo};
use postcard::experimental::max_size::MaxSize;
use postcard::experimental::serialized_size;
use serde::{Deserialize, Serialize};

macro_rules! bound {
    ($name:ident, $ty:ty, $unwind:literal, $mk:expr) => {
        #[kani::proof]
        #[kani::unwind($unwind)]
        fn $name() {
            let v: $ty = $mk;
            let sz = serialized_size(&v).unwrap();
            assert!(sz <= <$ty as MaxSize>::POSTCARD_MAX_SIZE, "a value encodes longer than POSTCARD_MAX_SIZE");
            kani::cover!(sz == <$ty as MaxSize>::POSTCARD_MAX_SIZE, "the maximum is attained (tight)");
        }
    };
}

/// same bound, without demanding tightness (the property claims tightness only for integers, floats, bool,
/// char, arrays, tuples, options and fixed-capacity strings/vectors)
macro_rules! bound_only {
    ($name:ident, $ty:ty, $unwind:literal, $mk:expr) => {
        #[kani::proof]
        #[kani::unwind($unwind)]
        fn $name() {
            let v: $ty = $mk;
            let sz = serialized_size(&v).unwrap();
            assert!(sz <= <$ty as MaxSize>::POSTCARD_MAX_SIZE, "a value encodes longer than POSTCARD_MAX_SIZE");
            kani::cover!(sz + 1 >= <$ty as MaxSize>::POSTCARD_MAX_SIZE, "a value within one byte of the maximum exists");
        }
    };
}

//@ tier=quick class=core cap=120 bounds="all values; tight"
bound!(c12_max_bool, bool, 4, kani::any());
//@ tier=quick class=core cap=120 bounds="all values; tight"
bound!(c12_max_u8, u8, 4, kani::any());
//@ tier=thorough class=core cap=120 bounds="all values; tight"
bound!(c12_max_i8, i8, 4, kani::any());
//@ tier=quick class=core cap=120 bounds="all values; tight"
bound!(c12_max_u16, u16, 6, kani::any());
//@ tier=thorough class=core cap=120 bounds="all values; tight"
bound!(c12_max_i16, i16, 6, kani::any());
//@ tier=quick class=core cap=120 bounds="all values; tight"
bound!(c12_max_u32, u32, 8, kani::any());
//@ tier=thorough class=core cap=120 bounds="all values; tight"
bound!(c12_max_i32, i32, 8, kani::any());
//@ tier=quick class=core cap=240 bounds="all values; tight"
bound!(c12_max_u64, u64, 13, kani::any());
//@ tier=quick class=core cap=240 bounds="all values; tight"
bound!(c12_max_i64, i64, 13, kani::any());
//@ tier=quick class=core cap=300 bounds="all values; tight"
bound!(c12_max_u128, u128, 22, kani::any());
//@ tier=quick class=core cap=300 bounds="all values; tight"
bound!(c12_max_i128, i128, 22, kani::any());
//@ tier=thorough class=core cap=240 bounds="all values (64-bit host); tight"
bound!(c12_max_usize, usize, 13, kani::any());
//@ tier=thorough class=core cap=240 bounds="all values (64-bit host); tight"
bound!(c12_max_isize, isize, 13, kani::any());
//@ tier=quick class=core cap=120 bounds="all bit patterns; tight"
bound!(c12_max_f32, f32, 8, f32::from_bits(kani::any()));
//@ tier=quick class=core cap=120 bounds="all bit patterns; tight"
bound!(c12_max_f64, f64, 12, f64::from_bits(kani::any()));
//@ tier=quick class=core cap=600 bounds="every char; tight (4-byte scalars)"
bound!(c12_max_char, char, 8, kani::any());
//@ tier=thorough class=core cap=120 bounds="unit; tight (0)"
bound!(c12_max_unit, (), 3, ());
//@ tier=quick class=core cap=300 bounds="all Option<u32>; tight"
bound!(c12_max_option, Option<u32>, 8, kani::any());
//@ tier=quick class=core cap=300 bounds="all Result<u8,i16>; tag byte + max of arms"
bound_only!(c12_max_result, Result<u8, i16>, 6, kani::any());
//@ tier=quick class=core cap=300 bounds="all [u16;3]; tight"
bound!(c12_max_array, [u16; 3], 8, kani::any());
//@ tier=thorough class=core cap=120 bounds="[u8;0]"
bound!(c12_max_array0, [u8; 0], 3, []);
//@ tier=thorough class=core cap=300 bounds="all (u8,)"
bound!(c12_max_tuple1, (u8,), 4, kani::any());
//@ tier=thorough class=core cap=300 bounds="all (u8,i16)"
bound!(c12_max_tuple2, (u8, i16), 6, kani::any());
//@ tier=thorough class=core cap=300 bounds="all (u8,i16,bool)"
bound!(c12_max_tuple3, (u8, i16, bool), 6, kani::any());
//@ tier=thorough class=core cap=600 bounds="all (u8,i16,bool,u32)"
bound!(c12_max_tuple4, (u8, i16, bool, u32), 8, kani::any());
//@ tier=thorough class=core cap=600 bounds="all (u8,i16,bool,u32,i8)"
bound!(c12_max_tuple5, (u8, i16, bool, u32, i8), 8, kani::any());
//@ tier=quick class=core cap=900 bounds="all (u8,u16,u32,u64,i8,i16); tight"
bound!(c12_max_tuple6, (u8, u16, u32, u64, i8, i16), 13, kani::any());
//@ tier=thorough class=core cap=120 bounds="all values"
bound!(c12_max_nz_u8, NonZeroU8, 4, kani::any());
//@ tier=thorough class=core cap=120 bounds="all values"
bound!(c12_max_nz_i8, NonZeroI8, 4, kani::any());
//@ tier=quick class=core cap=120 bounds="all values; tight"
bound!(c12_max_nz_u16, NonZeroU16, 6, kani::any());
//@ tier=thorough class=core cap=120 bounds="all values"
bound!(c12_max_nz_i16, NonZeroI16, 6, kani::any());
//@ tier=thorough class=core cap=120 bounds="all values"
bound!(c12_max_nz_u32, NonZeroU32, 8, kani::any());
//@ tier=thorough class=core cap=120 bounds="all values"
bound!(c12_max_nz_i32, NonZeroI32, 8, kani::any());
//@ tier=thorough class=core cap=240 bounds="all values"
bound!(c12_max_nz_u64, NonZeroU64, 13, kani::any());
//@ tier=thorough class=core cap=240 bounds="all values"
bound!(c12_max_nz_i64, NonZeroI64, 13, kani::any());
//@ tier=thorough class=core cap=300 bounds="all values"
bound!(c12_max_nz_u128, NonZeroU128, 22, kani::any());
//@ tier=quick class=core cap=300 bounds="all values; tight"
bound!(c12_max_nz_i128, NonZeroI128, 22, kani::any());
//@ tier=thorough class=core cap=240 bounds="all values"
bound!(c12_max_nz_usize, NonZeroUsize, 13, kani::any());
//@ tier=thorough class=core cap=240 bounds="all values"
bound!(c12_max_nz_isize, NonZeroIsize, 13, kani::any());
//@ tier=quick class=core cap=300 bounds="all Range<u16>"
bound_only!(c12_max_range, Range<u16>, 6, kani::any::<u16>()..kani::any::<u16>());
//@ tier=thorough class=core cap=300 bounds="all RangeInclusive<u16>"
bound_only!(c12_max_range_incl, RangeInclusive<u16>, 6, kani::any::<u16>()..=kani::any::<u16>());
//@ tier=thorough class=core cap=300 bounds="all RangeFrom<u16>"
bound_only!(c12_max_range_from, RangeFrom<u16>, 6, kani::any::<u16>()..);
//@ tier=thorough class=core cap=300 bounds="all RangeTo<u16>"
bound_only!(c12_max_range_to, RangeTo<u16>, 6, ..kani::any::<u16>());
//@ tier=thorough class=core cap=300 bounds="all &u32 / &mut u32 values"
bound_only!(c12_max_ref, &u32, 8, &*Box::leak(Box::new(kani::any::<u32>())));
//@ tier=thorough class=core cap=120 bounds="PhantomData<u64>"
bound_only!(c12_max_phantom, PhantomData<u64>, 3, PhantomData);

#[kani::proof]
#[kani::unwind(22)]
//@ tier=thorough class=core cap=900 bounds="all (u128,[u8;2]) values behind Box, Rc and Arc"
fn c12_max_smart_pointers() {
    let v: (u128, [u8; 2]) = kani::any();
    let b = Box::new(v);
    let sz = serialized_size(&b).unwrap();
    assert!(sz <= <Box<(u128, [u8; 2])> as MaxSize>::POSTCARD_MAX_SIZE);
    kani::cover!(sz == <Box<(u128, [u8; 2])> as MaxSize>::POSTCARD_MAX_SIZE, "tight");
    let r = std::rc::Rc::new(v);
    assert!(serialized_size(&r).unwrap() <= <std::rc::Rc<(u128, [u8; 2])> as MaxSize>::POSTCARD_MAX_SIZE);
    let a = std::sync::Arc::new(v);
    assert!(serialized_size(&a).unwrap() <= <std::sync::Arc<(u128, [u8; 2])> as MaxSize>::POSTCARD_MAX_SIZE);
    core::mem::forget((b, r, a));
}

macro_rules! hvec_bound {
    ($name:ident, $n:literal, $unwind:literal) => {
        #[kani::proof]
        #[kani::unwind($unwind)]
        fn $name() {
            let mut v: heapless::Vec<u16, $n> = heapless::Vec::new();
            let len: usize = kani::any();
            kani::assume(len <= $n);
            let mut i = 0;
            while i < len {
                v.push(kani::any()).unwrap();
                i += 1;
            }
            let sz = serialized_size(&v).unwrap();
            assert!(sz <= <heapless::Vec<u16, $n> as MaxSize>::POSTCARD_MAX_SIZE);
            kani::cover!(sz == <heapless::Vec<u16, $n> as MaxSize>::POSTCARD_MAX_SIZE, "tight: full container of maximal elements");
        }
    };
}
//@ tier=quick class=core cap=120 bounds="heapless::Vec<u16,0> (capacity 0 still needs a 1-byte length prefix)"
hvec_bound!(c12_max_hvec0, 0, 4);
//@ tier=thorough class=core cap=300 bounds="every heapless::Vec<u16,1>"
hvec_bound!(c12_max_hvec1, 1, 6);
//@ tier=quick class=core cap=600 bounds="every heapless::Vec<u16,3>; tight"
hvec_bound!(c12_max_hvec3, 3, 8);

macro_rules! hstring_bound {
    ($name:ident, $n:literal, $unwind:literal) => {
        #[kani::proof]
        #[kani::unwind($unwind)]
        fn $name() {
            let mut store = [0u8; $n];
            let s = crate::c01::any_str(&mut store);
            let mut v: heapless::String<$n> = heapless::String::new();
            v.push_str(s).unwrap();
            let sz = serialized_size(&v).unwrap();
            assert!(sz <= <heapless::String<$n> as MaxSize>::POSTCARD_MAX_SIZE);
            kani::cover!(sz == <heapless::String<$n> as MaxSize>::POSTCARD_MAX_SIZE, "tight: full string");
        }
    };
}
//@ tier=thorough class=core cap=300 bounds="every heapless::String<1>"
hstring_bound!(c12_max_hstring1, 1, 5);
//@ tier=thorough class=core cap=900 bounds="every heapless::String<4> (incl. one 4-byte char); tight"
hstring_bound!(c12_max_hstring4, 4, 8);

/// Length-prefix width at capacities around 2^7 and 2^14: the real constant of heapless::Vec<u8,N>
/// against (size of the real length prefix for `len`) + len, for EVERY len <= N.  `LenOnly` emits only
/// `serialize_seq(Some(len))`, i.e. postcard's real length-prefix encoder; the element sum len*1 is the
/// part already checked at N <= 3.
struct LenOnly(usize);
impl Serialize for LenOnly {
    fn serialize<S: serde::Serializer>(&self, s: S) -> Result<S::Ok, S::Error> {
        use serde::ser::SerializeSeq;
        s.serialize_seq(Some(self.0))?.end()
    }
}
macro_rules! prefix_width {
    ($name:ident, $n:literal) => {
        #[kani::proof]
        #[kani::unwind(12)]
        fn $name() {
            let len: usize = kani::any();
            kani::assume(len <= $n);
            let prefix = serialized_size(&LenOnly(len)).unwrap();
            assert!(prefix + len <= <heapless::Vec<u8, $n> as MaxSize>::POSTCARD_MAX_SIZE, "a full-enough container overflows the declared maximum");
            assert!(prefix + len <= <heapless::String<$n> as MaxSize>::POSTCARD_MAX_SIZE);
            kani::cover!(prefix + len == <heapless::Vec<u8, $n> as MaxSize>::POSTCARD_MAX_SIZE, "tight at len == N");
        }
    };
}
//@ tier=quick class=core cap=300 bounds="capacity 127: every len 0..=127"
prefix_width!(c12_prefix_127, 127);
//@ tier=quick class=core cap=300 bounds="capacity 128: every len 0..=128 (2-byte prefix boundary)"
prefix_width!(c12_prefix_128, 128);
//@ tier=thorough class=core cap=300 bounds="capacity 16383: every len"
prefix_width!(c12_prefix_16383, 16383);
//@ tier=thorough class=core cap=300 bounds="capacity 16384: every len (3-byte prefix boundary)"
prefix_width!(c12_prefix_16384, 16384);

// ---- derived (workspace postcard-derive)
#[derive(Serialize, postcard_derive::MaxSize)]
#[cfg_attr(kani, derive(kani::Arbitrary))]
pub struct DNamed {
    a: u16,
    b: Option<i32>,
    c: [u8; 2],
}
#[derive(Serialize, postcard_derive::MaxSize)]
#[cfg_attr(kani, derive(kani::Arbitrary))]
pub struct DTuple(u8, i64);
#[derive(Serialize, postcard_derive::MaxSize)]
#[cfg_attr(kani, derive(kani::Arbitrary))]
pub struct DUnit;
#[derive(Serialize, postcard_derive::MaxSize)]
#[cfg_attr(kani, derive(kani::Arbitrary))]
pub struct DGeneric<T> {
    x: T,
    y: (T, u8),
}
#[derive(Serialize, postcard_derive::MaxSize)]
#[cfg_attr(kani, derive(kani::Arbitrary))]
pub enum DEnum {
    A,
    B(u16),
    C(u8, i32),
    D { x: i64, y: bool },
    E(DNamed),
}

//@ tier=quick class=core cap=600 bounds="derive: all values of a named struct {u16,Option<i32>,[u8;2]}; tight"
bound_only!(c12_derive_named, DNamed, 8, kani::any());
//@ tier=thorough class=core cap=600 bounds="derive: all values of a tuple struct (u8,i64); tight"
bound_only!(c12_derive_tuple, DTuple, 13, kani::any());
//@ tier=thorough class=core cap=120 bounds="derive: unit struct"
bound_only!(c12_derive_unit, DUnit, 3, DUnit);
//@ tier=thorough class=core cap=600 bounds="derive: all values of generic struct DGeneric<u32>; tight"
bound_only!(c12_derive_generic, DGeneric<u32>, 8, kani::any());
//@ tier=quick class=core cap=900 bounds="derive: all values of a 5-variant enum with unit/newtype/tuple/struct/nested variants; tight"
bound_only!(c12_derive_enum, DEnum, 13, kani::any());
//@ tier=thorough class=core cap=300 bounds="derive: enum with 1 variant"
bound_only!(c12_derive_enum1, En1, 6, kani::any());
//@ tier=thorough class=core cap=300 bounds="derive: enum with 2 variants"
bound_only!(c12_derive_enum2, En2, 6, kani::any());
//@ tier=thorough class=core cap=900 bounds="derive: enum with 127 variants"
bound_only!(c12_derive_enum127, En127, 6, kani::any());
//@ tier=thorough class=core cap=900 bounds="derive: enum with 128 variants (largest index 127; the derive budgets 2 bytes - safe, not tight)"
bound_only!(c12_derive_enum128, En128, 6, kani::any());
//@ tier=quick class=core cap=900 bounds="derive: enum with 129 variants (largest index 128 -> 2-byte discriminant)"
bound_only!(c12_derive_enum129, En129, 6, kani::any());
