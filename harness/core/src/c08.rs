//! C08 / C09 — the COBS accumulator.
//!
//! INDUCTIVE STEP (needs hook H1, `--cfg postcard_verif`).  State invariant
//!     I(buf, idx):  idx <= N  and  buf[..idx] contains no zero byte.
//! * `CobsAccumulator::new()` establishes I (idx = 0).
//! * The step harness starts from ANY state satisfying I (buf and idx symbolic), feeds ONE symbolic
//!   chunk, compares the outcome with the stream model "pending ++ chunk", and shows I holds again.
//! Since every feed starts in a state satisfying I and ends in one, the per-call guarantees hold after
//! feed histories of every length and for every way of chunking a stream — the exponential family the
//! property quantifies over — by induction on the number of calls.  What the step establishes per call:
//!   - consumed ++ remaining == chunk (remaining is a suffix of the chunk, pointer-exact);
//!   - chunk has its first zero at z and idx+z+1 <= N: result is Success/DeserError exactly as — and with
//!     the value of — `from_bytes_cobs` on an isolated copy of pending ++ chunk[..=z]; idx' = 0;
//!   - no zero and idx+len <= N: Consumed, state' = pending ++ chunk;
//!   - otherwise OverFull with the documented remainder; idx' = 0;
//!   - progress measure (|remaining|, idx') <lex (|chunk|, idx) for every non-empty chunk (N >= 1).
//! C08 harnesses assert the clauses under the "fits" premise; C09 harnesses assert the overflow,
//! reset, progress and no-panic clauses without it.
use crate::c07::{BytesD, Same};
use postcard::accumulator::{CobsAccumulator, FeedResult};
use serde::{Deserialize, Serialize};

#[derive(Clone, Copy, PartialEq)]
pub enum Mode {
    /// C08: assume every segment fits
    Fits,
    /// C09: no premise
    Any,
}

pub fn first_zero(s: &[u8]) -> Option<usize> {
    let mut i = 0;
    while i < s.len() {
        if s[i] == 0 {
            return Some(i);
        }
        i += 1;
    }
    None
}

macro_rules! step {
    ($name:ident, $n:literal, $ty:ty, $mode:expr, $unwind:literal, $feed:ident) => {
        #[kani::proof]
        #[kani::unwind($unwind)]
        fn $name() {
            const N: usize = $n;
            const C: usize = $n + 3;
            let buf: [u8; N] = kani::any();
            let idx: usize = kani::any();
            kani::assume(idx <= N);
            let mut i = 0;
            while i < N {
                kani::assume(i >= idx || buf[i] != 0);
                i += 1;
            }
            let chunk: [u8; C] = kani::any();
            let clen: usize = kani::any();
            kani::assume(clen <= C);
            let input = &chunk[..clen];
            let z = first_zero(input);
            let fits = match z {
                Some(z) => idx + z + 1 <= N,
                None => idx + clen <= N,
            };
            if $mode == Mode::Fits {
                kani::assume(fits);
            }
            // isolated copy of pending ++ chunk[..=z] and its stand-alone decoding
            let mut iso = [0u8; N + C];
            let mut iso_len = 0;
            if let (Some(z), true) = (z, fits) {
                let mut i = 0;
                while i < idx {
                    iso[i] = buf[i];
                    i += 1;
                }
                let mut i = 0;
                while i <= z {
                    iso[idx + i] = chunk[i];
                    i += 1;
                }
                iso_len = idx + z + 1;
            }
            let expect = postcard::from_bytes_cobs::<$ty>(&mut iso[..iso_len]);

            let mut acc = CobsAccumulator::<N>::verif_from_parts(buf, idx);
            let res = acc.$feed::<$ty>(input);
            let base = input.as_ptr() as usize;
            // what the call must do, from the stream model
            let (rem_len, idx_after): (usize, usize) = match (&res, z) {
                _ if clen == 0 => {
                    assert!(matches!(res, FeedResult::Consumed));
                    (0, idx)
                }
                (FeedResult::Success { data, remaining }, Some(z)) => {
                    assert!(fits, "Success although the segment does not fit");
                    assert!(remaining.as_ptr() as usize == base + z + 1 && remaining.len() == clen - z - 1,
                            "remaining is not exactly the bytes after the sentinel");
                    match &expect {
                        Ok(e) => assert!(data.same(e), "value differs from decoding the segment in isolation"),
                        Err(_) => assert!(false, "Success where isolated decoding fails"),
                    }
                    (remaining.len(), 0)
                }
                (FeedResult::DeserError(remaining), Some(z)) => {
                    assert!(fits, "DeserError although the segment does not fit");
                    assert!(remaining.as_ptr() as usize == base + z + 1 && remaining.len() == clen - z - 1,
                            "remaining is not exactly the bytes after the sentinel");
                    assert!(expect.is_err(), "DeserError where isolated decoding succeeds");
                    (remaining.len(), 0)
                }
                (FeedResult::OverFull(remaining), Some(z)) => {
                    assert!(!fits, "OverFull although the segment fits");
                    assert!(remaining.as_ptr() as usize == base + z + 1 && remaining.len() == clen - z - 1,
                            "overflow with sentinel must drop through the sentinel");
                    (remaining.len(), 0)
                }
                (FeedResult::OverFull(remaining), None) => {
                    assert!(!fits, "OverFull although the chunk fits");
                    // drops what fills the buffer, hands back the rest: a suffix of the chunk
                    assert!(remaining.as_ptr() as usize + remaining.len() == base + clen, "remaining is not a suffix of the chunk");
                    assert!(remaining.len() == clen - (N - idx));
                    (remaining.len(), 0)
                }
                (FeedResult::Consumed, None) => {
                    assert!(fits, "Consumed although the chunk does not fit");
                    (0, idx + clen)
                }
                _ => {
                    assert!(false, "result kind impossible for this chunk");
                    (0, 0)
                }
            };
            drop(res);
            // post-state, through the read-only hook
            let (b2, i2) = acc.verif_parts();
            assert!(i2 == idx_after, "fill level differs from the model");
            assert!(i2 <= N);
            if z.is_none() && fits {
                // state' = pending ++ chunk
                let mut i = 0;
                while i < idx {
                    assert!(b2[i] == buf[i], "pending bytes were altered");
                    i += 1;
                }
                let mut i = 0;
                while i < clen {
                    assert!(b2[idx + i] == chunk[i], "appended bytes differ from the chunk");
                    i += 1;
                }
            }
            // invariant re-established
            let mut i = 0;
            while i < N {
                assert!(i >= i2 || b2[i] != 0, "invariant broken: zero byte inside the pending region");
                i += 1;
            }
            // progress of the documented re-feed loop
            if clen > 0 {
                assert!(rem_len < clen || (rem_len == clen && i2 < idx), "no progress: the feed loop would spin");
            }
            kani::cover!(z.is_some() && fits && expect.is_ok(), "a frame is delivered");
            kani::cover!(z.is_none() && fits && clen > 0, "bytes are buffered");
            // (trivially satisfied under the "fits" premise, where overflow is assumed away)
            kani::cover!($mode == Mode::Fits || (z.is_some() && !fits), "overflow with sentinel");
            kani::cover!($mode == Mode::Fits || (z.is_none() && !fits), "overflow without sentinel");
        }
    };
}

// ---- C08: exactly-once delivery under the "fits" premise
//@ tier=quick class=core cap=900 bounds="N=4: any state satisfying I x any chunk of 0..=7 bytes, T=u16; one inductive step" hooks=H1
step!(c08_step_n4_u16, 4, u16, Mode::Fits, 12, feed);
//@ tier=quick class=core cap=900 bounds="N=3: any state x any chunk of 0..=6 bytes, T=u8" hooks=H1
step!(c08_step_n3_u8, 3, u8, Mode::Fits, 11, feed);
//@ tier=thorough class=core cap=2400 bounds="N=5: any state x any chunk of 0..=8 bytes, T=u16" hooks=H1
step!(c08_step_n5_u16, 5, u16, Mode::Fits, 14, feed);
//@ tier=thorough class=core cap=2400 bounds="N=5: any state x any chunk of 0..=8, T=byte array borrowing the accumulator buffer (feed_ref)" hooks=H1
step!(c08_step_n5_bytes_ref, 5, BytesD, Mode::Fits, 14, feed_ref);
//@ tier=thorough class=core cap=3600 bounds="N=8: any state x any chunk of 0..=11 bytes, T=u16" hooks=H1
step!(c08_step_n8_u16, 8, u16, Mode::Fits, 20, feed);
//@ tier=thorough class=core cap=900 bounds="N=1: any state x any chunk of 0..=4 bytes, T=() (the only frame that fits is the empty one)" hooks=H1
step!(c08_step_n1_unit, 1, (), Mode::Fits, 8, feed);
//@ tier=thorough class=core cap=900 bounds="N=2: any state x any chunk of 0..=5 bytes, T=()" hooks=H1
step!(c08_step_n2_unit, 2, (), Mode::Fits, 9, feed);

// ---- C09: overflow, reset, progress, no panic — no premise
//@ tier=quick class=core cap=900 bounds="N=4: any state satisfying I x any chunk of 0..=7 bytes incl. over-long segments, T=u16" hooks=H1
step!(c09_step_n4_u16, 4, u16, Mode::Any, 12, feed);
//@ tier=quick class=core cap=600 bounds="N=1 (smallest capacity): any state x any chunk of 0..=4 bytes, T=()" hooks=H1
step!(c09_step_n1_unit, 1, (), Mode::Any, 8, feed);
//@ tier=thorough class=core cap=900 bounds="N=2: any state x any chunk of 0..=5 bytes, T=()" hooks=H1
step!(c09_step_n2_unit, 2, (), Mode::Any, 9, feed);
//@ tier=thorough class=core cap=2400 bounds="N=5: any state x any chunk of 0..=8 bytes, T=(u8,u8)" hooks=H1
step!(c09_step_n5_pair, 5, (u8, u8), Mode::Any, 14, feed);
//@ tier=thorough class=core cap=3600 bounds="N=8: any state x any chunk of 0..=11 bytes, T=u16" hooks=H1
step!(c09_step_n8_u16, 8, u16, Mode::Any, 20, feed);
//@ tier=thorough class=core cap=2400 bounds="N=5: any state x any chunk 0..=8, T=byte array via feed_ref" hooks=H1
step!(c09_step_n5_bytes_ref, 5, BytesD, Mode::Any, 14, feed_ref);

#[kani::proof]
#[kani::unwind(8)]
//@ tier=quick class=core cap=600 bounds="new() establishes the invariant; N in {1,4}"
fn c08_new_establishes_invariant() {
    let a = CobsAccumulator::<4>::new();
    let (_, i) = a.verif_parts();
    assert!(i == 0);
    let b = CobsAccumulator::<1>::new();
    assert!(b.verif_parts().1 == 0);
    let c: CobsAccumulator<4> = Default::default();
    assert!(c.verif_parts().1 == 0);
    kani::cover!(true, "reached");
}

/// Resync: from ANY state with idx = 0 (what every sentinel and every overflow leaves behind — shown by
/// the step harness) a well-formed frame is delivered intact, whole or split at any point.
#[kani::proof]
#[kani::unwind(10)]
//@ tier=quick class=core cap=900 bounds="N=6: arbitrary buffer contents, idx=0; frame of any u16 fed whole or split in two at every point" hooks=H1
fn c09_resync_after_reset() {
    let buf: [u8; 6] = kani::any();
    let mut acc = CobsAccumulator::<6>::verif_from_parts(buf, 0);
    let v: u16 = kani::any();
    let mut fb = [0u8; 5];
    let frame = postcard::to_slice_cobs(&v, &mut fb).unwrap();
    let flen = frame.len();
    let cut: usize = kani::any();
    kani::assume(cut <= flen);
    let (a, b) = frame.split_at(cut);
    let first = acc.feed::<u16>(a);
    if cut == flen {
        match first {
            FeedResult::Success { data, remaining } => assert!(data == v && remaining.is_empty()),
            _ => assert!(false, "well-formed frame after a reset was not delivered"),
        }
    } else {
        assert!(matches!(first, FeedResult::Consumed));
        match acc.feed::<u16>(b) {
            FeedResult::Success { data, remaining } => assert!(data == v && remaining.is_empty()),
            _ => assert!(false, "well-formed frame after a reset was not delivered"),
        }
    }
    assert!(acc.verif_parts().1 == 0);
    kani::cover!(cut == 2 && flen == 5, "split inside a 3-byte varint frame");
}

/// Overflow, then the sentinel, then a good frame: two public-API steps from an arbitrary state.
#[kani::proof]
#[kani::unwind(9)]
//@ tier=thorough class=core cap=2400 bounds="N=5: any state, garbage chunk of 1..=5 bytes ending in zero, then a frame of any u16: Success with that value" hooks=H1
fn c09_resync_two_step() {
    const N: usize = 5;
    let buf: [u8; N] = kani::any();
    let idx: usize = kani::any();
    kani::assume(idx <= N);
    let mut i = 0;
    while i < N {
        kani::assume(i >= idx || buf[i] != 0);
        i += 1;
    }
    let mut acc = CobsAccumulator::<N>::verif_from_parts(buf, idx);
    let garbage: [u8; 5] = kani::any();
    let glen: usize = kani::any();
    kani::assume(glen >= 1 && glen <= 5);
    kani::assume(garbage[glen - 1] == 0);
    // documented loop
    let mut window = &garbage[..glen];
    let mut iters = 0;
    while !window.is_empty() {
        window = match acc.feed::<u16>(window) {
            FeedResult::Consumed => break,
            FeedResult::OverFull(w) => w,
            FeedResult::DeserError(w) => w,
            FeedResult::Success { remaining, .. } => remaining,
        };
        iters += 1;
        assert!(iters <= 6, "feed loop exceeded its progress bound");
    }
    assert!(acc.verif_parts().1 == 0, "not back in the initial state after a sentinel");
    let v: u16 = kani::any();
    let mut fb = [0u8; 5];
    let frame = postcard::to_slice_cobs(&v, &mut fb).unwrap();
    match acc.feed::<u16>(frame) {
        FeedResult::Success { data, remaining } => assert!(data == v && remaining.is_empty()),
        _ => assert!(false, "frame following a sentinel was not delivered intact"),
    }
    kani::cover!(glen == 5 && idx == N, "overflowing garbage reachable");
}

/// Bounded history from `new()` through the public API only (sanity for the induction).
#[kani::proof]
#[kani::unwind(10)]
//@ tier=thorough class=best cap=3600 bounds="N=4, new(), 2 chunks of 0..=4 symbolic bytes fed with the documented re-feed loop, every segment fits; results vs segment-by-segment isolated decoding (T=u8 payload pair)"
fn c08_history_two_chunks() {
    const N: usize = 4;
    let mut acc = CobsAccumulator::<N>::new();
    let stream: [u8; 8] = kani::any();
    let l1: usize = kani::any();
    let l2: usize = kani::any();
    kani::assume(l1 <= 4 && l2 <= 4);
    // premise of C08: every zero-terminated segment and the tail fit the capacity
    let total = l1 + l2;
    let mut run = 0;
    let mut i = 0;
    while i < 8 {
        if i < total {
            run += 1;
            kani::assume(run <= N);
            if stream[i] == 0 {
                run = 0;
            }
        }
        i += 1;
    }
    // model: one result per zero byte, in order
    let mut seg_start = 0;
    let mut pos = 0; // stream position of the byte the accumulator will see next
    let mut results = 0;
    let mut c = 0;
    while c < 2 {
        let (lo, hi) = if c == 0 { (0, l1) } else { (l1, l1 + l2) };
        let mut window = &stream[lo..hi];
        let mut guard = 0;
        while !window.is_empty() {
            let before = window.len();
            let r = acc.feed::<u8>(window);
            let (next, delivered): (&[u8], Option<Option<u8>>) = match r {
                FeedResult::Consumed => (&window[window.len()..], None),
                FeedResult::OverFull(_) => {
                    assert!(false, "OverFull although every segment fits");
                    (&window[window.len()..], None)
                }
                FeedResult::DeserError(w) => (w, Some(None)),
                FeedResult::Success { data, remaining } => (remaining, Some(Some(data))),
            };
            pos += before - next.len();
            if let Some(d) = delivered {
                // the segment is stream[seg_start..pos], its last byte the sentinel
                assert!(stream[pos - 1] == 0);
                let mut iso = [0u8; 8];
                let mut k = 0;
                while k < pos - seg_start {
                    iso[k] = stream[seg_start + k];
                    k += 1;
                }
                let e = postcard::from_bytes_cobs::<u8>(&mut iso[..pos - seg_start]);
                match (d, e) {
                    (Some(a), Ok(b)) => assert!(a == b),
                    (None, Err(_)) => {}
                    _ => assert!(false, "result differs from decoding the segment in isolation"),
                }
                seg_start = pos;
                results += 1;
            }
            window = next;
            guard += 1;
            assert!(guard <= 5);
        }
        c += 1;
    }
    assert!(pos == total, "bytes lost or duplicated");
    // exactly one result per zero byte
    let mut zeros = 0;
    let mut i = 0;
    while i < 8 {
        if i < total && stream[i] == 0 {
            zeros += 1;
        }
        i += 1;
    }
    assert!(results == zeros, "not exactly one result per zero byte");
    kani::cover!(results == 2 && l1 == 3, "two frames, the first straddling the chunk boundary");
}
