//! C04 — decoding untrusted bytes is total, in-bounds and resource-bounded.
//!
//! (i)  every byte string <= L x target type through take_from_bytes: CBMC's own checks on the
//!      compiled code decide "no reachable panic / overflow / out-of-bounds dereference" — this is
//!      where the raw-pointer cursors of de::flavors::Slice and SlidingBuffer are decided for ALL inputs;
//! (ii) borrowed outputs lie inside the input (inside the scratch buffer for readers), in order, disjoint;
//!      the remainder ends exactly at the input's end;
//! (iii) resource bound: SeqAccess::size_hint() never exceeds the bytes that remain, whatever the
//!      claimed length; owned results do not over-allocate; with unwind = L+2 the unwinding assertions
//!      bound every decoder loop by the input length;
//! (iv) deserialize_any / identifier / ignored_any are refused with WontImplement.
use crate::spec::Rd;
use crate::types::*;
use serde::de::{self, Deserializer, SeqAccess, Visitor};
use serde::{Deserialize, Serialize};

fn inside(outer: &[u8], p: *const u8, len: usize) -> bool {
    let lo = outer.as_ptr() as usize;
    let hi = lo + outer.len();
    let a = p as usize;
    a >= lo && a + len <= hi
}

macro_rules! total {
    ($name:ident, $ty:ty, $len:literal, $unwind:literal) => {
        #[kani::proof]
        #[kani::unwind($unwind)]
        fn $name() {
            let a: [u8; $len] = kani::any();
            let n: usize = kani::any();
            kani::assume(n <= $len);
            let s = &a[..n];
            let r = postcard::take_from_bytes::<$ty>(s);
            if let Ok((_v, rest)) = &r {
                assert!(inside(s, rest.as_ptr(), rest.len()));
                assert!(rest.as_ptr() as usize + rest.len() == s.as_ptr() as usize + s.len());
            }
            let r2 = postcard::from_bytes::<$ty>(s);
            assert!(r.is_ok() == r2.is_ok());
            kani::cover!(r.is_ok(), "some input decodes");
            kani::cover!(r.is_err() && n == $len, "some full-length input is rejected");
            core::mem::forget(r);
            core::mem::forget(r2);
        }
    };
}

//@ tier=quick class=core cap=300 bounds="every byte string 0..=8 as u64"
total!(c04_total_u64, u64, 8, 11);
//@ tier=quick class=core cap=300 bounds="every byte string 0..=8 as i32"
total!(c04_total_i32, i32, 8, 11);
//@ tier=thorough class=core cap=900 bounds="every byte string 0..=8 as u128/i128"
total!(c04_total_i128, i128, 8, 11);
//@ tier=quick class=core cap=600 bounds="every byte string 0..=8 as E4"
total!(c04_total_enum4, E4, 8, 11);
//@ tier=quick class=core cap=600 bounds="every byte string 0..=8 as Named"
total!(c04_total_named, Named, 8, 11);
//@ tier=thorough class=core cap=1800 bounds="every byte string 0..=8 as Nest"
total!(c04_total_nest, Nest, 8, 11);
//@ tier=thorough class=core cap=300 bounds="every byte string 0..=10 as (f64, bool)"
total!(c04_total_scalars, (f64, bool), 10, 13);
//@ tier=thorough class=core cap=900 bounds="every byte string 0..=6 as char"
total!(c04_total_char, char, 6, 9);
//@ tier=thorough class=core cap=900 bounds="every byte string 0..=8 as heapless::Vec<u16,3>"
total!(c04_total_hvec, heapless::Vec<u16, 3>, 8, 11);
//@ tier=thorough class=core cap=1800 bounds="every byte string 0..=6 as Vec<u16> (heap)"
total!(c04_total_vec, Vec<u16>, 6, 9);
//@ tier=thorough class=core cap=1800 bounds="every byte string 0..=6 as String (heap)"
total!(c04_total_string, String, 6, 9);
//@ tier=thorough class=core cap=900 bounds="every byte string 0..=6 as PairMap<2> (deserialize_map)"
total!(c04_total_map, PairMap<2>, 6, 9);

#[derive(Deserialize)]
struct BytesT<'a>(#[serde(with = "crate::types::bytes_as_bytes")] &'a [u8]);
//@ tier=quick class=core cap=900 bounds="every byte string 0..=12 as a byte array: length prefixes up to usize::MAX (10-byte varints) against the raw-pointer bounds check"
total!(c04_total_bytes12, BytesT, 12, 15);
//@ tier=thorough class=best cap=1800 bounds="every byte string 0..=11 as &str: length prefixes up to usize::MAX (UTF-8 validation over 11 symbolic bytes did not finish in 30 min)"
total!(c04_total_str11, &str, 11, 14);

/// zero-width elements: claimed length bounded by L (the property excludes them from the allocation
/// clause; a claimed length of 2^64 would loop that often by construction of serde's visitors).
#[kani::proof]
#[kani::unwind(9)]
//@ tier=thorough class=core cap=600 bounds="byte strings 0..=3 as heapless::Vec<(),4> with claimed length <= 6"
fn c04_total_zst_seq() {
    let a: [u8; 3] = kani::any();
    let n: usize = kani::any();
    kani::assume(n <= 3);
    kani::assume(a[0] <= 6);
    let s = &a[..n];
    let r = postcard::take_from_bytes::<heapless::Vec<(), 4>>(s);
    if let Ok((v, rest)) = &r {
        assert!(v.len() == a[0] as usize);
        assert!(rest.len() == n - 1);
    }
    kani::cover!(r.is_ok(), "decodes");
    kani::cover!(r.is_err() && n > 0, "overflowing container rejected");
}

#[kani::proof]
#[kani::unwind(10)]
//@ tier=quick class=core cap=1200 bounds="every byte string 0..=6 as Borrowing{u16,&str,&[u8],Option<bool>}: borrowed fields inside the input, ordered, disjoint"
fn c04_borrowed_in_bounds() {
    let a: [u8; 6] = kani::any();
    let n: usize = kani::any();
    kani::assume(n <= 6);
    let s = &a[..n];
    let r = postcard::take_from_bytes::<Borrowing>(s);
    if let Ok((v, rest)) = &r {
        assert!(inside(s, v.s.as_ptr(), v.s.len()));
        assert!(inside(s, v.b.as_ptr(), v.b.len()));
        assert!(inside(s, rest.as_ptr(), rest.len()));
        // wire order: id, s, b, f, rest
        assert!(v.s.as_ptr() as usize > s.as_ptr() as usize);
        assert!(v.s.as_ptr() as usize + v.s.len() < v.b.as_ptr() as usize);
        assert!(v.b.as_ptr() as usize + v.b.len() < rest.as_ptr() as usize);
        assert!(rest.as_ptr() as usize + rest.len() == s.as_ptr() as usize + n);
    }
    kani::cover!(matches!(&r, Ok((v, _)) if v.s.len() == 1 && v.b.len() == 1), "both borrowed fields non-empty");
    kani::cover!(r.is_err(), "some input rejected");
}

#[kani::proof]
#[kani::unwind(10)]
//@ tier=thorough class=core cap=1800 bounds="every byte string 0..=8 as Borrowing"
fn c04_borrowed_in_bounds8() {
    let a: [u8; 8] = kani::any();
    let n: usize = kani::any();
    kani::assume(n <= 8);
    let s = &a[..n];
    let r = postcard::take_from_bytes::<Borrowing>(s);
    if let Ok((v, rest)) = &r {
        assert!(inside(s, v.s.as_ptr(), v.s.len()));
        assert!(inside(s, v.b.as_ptr(), v.b.len()));
        assert!(v.s.as_ptr() as usize + v.s.len() < v.b.as_ptr() as usize);
        assert!(v.b.as_ptr() as usize + v.b.len() < rest.as_ptr() as usize);
        assert!(rest.as_ptr() as usize + rest.len() == s.as_ptr() as usize + n);
    }
    kani::cover!(matches!(&r, Ok((v, _)) if v.s.len() == 2 && v.b.len() == 2), "both borrowed fields non-empty");
}

/// Records what `SeqAccess::size_hint()` reports for a sequence / tuple, without reading elements.
struct HintProbe(Option<usize>);
impl<'de> Deserialize<'de> for HintProbe {
    fn deserialize<D: Deserializer<'de>>(d: D) -> Result<Self, D::Error> {
        struct V;
        impl<'de> Visitor<'de> for V {
            type Value = HintProbe;
            fn expecting(&self, _f: &mut core::fmt::Formatter) -> core::fmt::Result {
                Ok(())
            }
            fn visit_seq<A: SeqAccess<'de>>(self, seq: A) -> Result<HintProbe, A::Error> {
                Ok(HintProbe(seq.size_hint()))
            }
        }
        d.deserialize_seq(V)
    }
}

#[kani::proof]
#[kani::unwind(13)]
//@ tier=quick class=core cap=300 bounds="every byte string 0..=12: any claimed sequence length up to usize::MAX; size_hint <= bytes remaining"
fn c04_size_hint_bounded() {
    let a: [u8; 12] = kani::any();
    let n: usize = kani::any();
    kani::assume(n <= 12);
    let s = &a[..n];
    let r = postcard::from_bytes::<HintProbe>(s);
    let mut rd = Rd::new(s);
    let claimed = rd.varint(64);
    match (&r, claimed) {
        (Ok(HintProbe(h)), Ok(c)) => {
            let remaining = n - rd.pos;
            if let Some(h) = h {
                // never pre-allocate from a claimed length the input cannot back
                assert!(*h <= remaining);
                assert!(*h as u128 == c);
            } else {
                assert!(c > remaining as u128);
            }
        }
        (Err(_), Err(_)) => {}
        _ => assert!(false, "length prefix accepted/rejected inconsistently"),
    }
    kani::cover!(matches!(&r, Ok(HintProbe(None))), "hint withheld for an over-claimed length");
    kani::cover!(matches!(&r, Ok(HintProbe(Some(3)))), "hint given for a plausible length");
}

#[kani::proof]
#[kani::unwind(9)]
//@ tier=thorough class=core cap=1800 bounds="every byte string 0..=6 as Vec<u16>: on success capacity <= max(4, 2*len); length prefix up to usize::MAX"
fn c04_vec_capacity_bounded() {
    let a: [u8; 6] = kani::any();
    let n: usize = kani::any();
    kani::assume(n <= 6);
    let s = &a[..n];
    let r = postcard::from_bytes::<Vec<u16>>(s);
    if let Ok(v) = &r {
        assert!(v.len() <= n);
        assert!(v.capacity() <= core::cmp::max(4, 2 * v.len()));
    }
    kani::cover!(matches!(&r, Ok(v) if v.len() == 2), "two elements decode");
    core::mem::forget(r);
}

#[kani::proof]
#[kani::unwind(9)]
//@ tier=thorough class=core cap=1800 bounds="every byte string 0..=6 as String: on success capacity == len <= input"
fn c04_string_capacity_bounded() {
    let a: [u8; 6] = kani::any();
    let n: usize = kani::any();
    kani::assume(n <= 6);
    let s = &a[..n];
    let r = postcard::from_bytes::<String>(s);
    if let Ok(v) = &r {
        assert!(v.len() < n || n == 0);
        assert!(v.capacity() <= core::cmp::max(8, 2 * v.len()));
    }
    kani::cover!(matches!(&r, Ok(v) if v.len() == 3), "three bytes decode");
    core::mem::forget(r);
}

/// Requests the format cannot serve.
struct WantsAny;
impl<'de> Deserialize<'de> for WantsAny {
    fn deserialize<D: Deserializer<'de>>(d: D) -> Result<Self, D::Error> {
        struct V;
        impl<'de> Visitor<'de> for V {
            type Value = WantsAny;
            fn expecting(&self, _f: &mut core::fmt::Formatter) -> core::fmt::Result {
                Ok(())
            }
            fn visit_u8<E: de::Error>(self, _v: u8) -> Result<WantsAny, E> {
                Ok(WantsAny)
            }
            fn visit_unit<E: de::Error>(self) -> Result<WantsAny, E> {
                Ok(WantsAny)
            }
        }
        d.deserialize_any(V)
    }
}
struct WantsIdent;
impl<'de> Deserialize<'de> for WantsIdent {
    fn deserialize<D: Deserializer<'de>>(d: D) -> Result<Self, D::Error> {
        struct V;
        impl<'de> Visitor<'de> for V {
            type Value = WantsIdent;
            fn expecting(&self, _f: &mut core::fmt::Formatter) -> core::fmt::Result {
                Ok(())
            }
            fn visit_u64<E: de::Error>(self, _v: u64) -> Result<WantsIdent, E> {
                Ok(WantsIdent)
            }
            fn visit_str<E: de::Error>(self, _v: &str) -> Result<WantsIdent, E> {
                Ok(WantsIdent)
            }
        }
        d.deserialize_identifier(V)
    }
}

#[kani::proof]
#[kani::unwind(7)]
//@ tier=quick class=core cap=300 bounds="every byte string 0..=4: deserialize_any / deserialize_identifier / IgnoredAny -> Err(WontImplement), nothing else"
fn c04_unsupported_refused() {
    let a: [u8; 4] = kani::any();
    let n: usize = kani::any();
    kani::assume(n <= 4);
    let s = &a[..n];
    assert!(matches!(postcard::from_bytes::<WantsAny>(s), Err(postcard::Error::WontImplement)));
    assert!(matches!(postcard::from_bytes::<WantsIdent>(s), Err(postcard::Error::WontImplement)));
    assert!(matches!(postcard::from_bytes::<de::IgnoredAny>(s), Err(postcard::Error::WontImplement)));
    // also after a prefix was decoded
    let r = postcard::from_bytes::<(u8, de::IgnoredAny)>(s);
    if n >= 1 {
        assert!(matches!(r, Err(postcard::Error::WontImplement)));
    } else {
        assert!(matches!(r, Err(postcard::Error::DeserializeUnexpectedEnd)));
    }
    kani::cover!(n == 4, "reached");
}

#[kani::proof]
#[kani::unwind(10)]
//@ tier=quick class=core cap=1200 bounds="reader-based decoding: every input 0..=5 as (u16,&[u8],&[u8]) x every scratch length 0..=5: no write outside scratch, borrowed fields inside scratch and disjoint"
fn c04_reader_scratch_in_bounds() {
    #[derive(Deserialize)]
    struct Two<'a>(
        u16,
        #[serde(with = "crate::types::bytes_as_bytes")] &'a [u8],
        #[serde(with = "crate::types::bytes_as_bytes")] &'a [u8],
    );
    let a: [u8; 5] = kani::any();
    let n: usize = kani::any();
    kani::assume(n <= 5);
    // scratch sits between two canaries inside one array so that any stray write is observable
    let mut arena = [0xA5u8; 9];
    let slen: usize = kani::any();
    kani::assume(slen <= 5);
    let (left, rest) = arena.split_at_mut(2);
    let (scratch, right) = rest.split_at_mut(slen);
    let scratch_lo = scratch.as_ptr() as usize;
    let scratch_hi = scratch_lo + slen;
    let r = postcard::from_io::<Two, &[u8]>((&a[..n], scratch));
    if let Ok((v, (rd, unused))) = &r {
        let p1 = v.1.as_ptr() as usize;
        let p2 = v.2.as_ptr() as usize;
        assert!(p1 >= scratch_lo && p1 + v.1.len() <= scratch_hi);
        assert!(p2 >= scratch_lo && p2 + v.2.len() <= scratch_hi);
        assert!(p1 + v.1.len() <= p2);
        // unused scratch is exactly the tail after both fields
        assert!(unused.as_ptr() as usize == p2 + v.2.len());
        assert!(unused.as_ptr() as usize + unused.len() == scratch_hi);
        assert!(rd.len() <= n);
    }
    assert!(left[0] == 0xA5 && left[1] == 0xA5);
    let mut i = 0;
    while i < right.len() {
        assert!(right[i] == 0xA5);
        i += 1;
    }
    kani::cover!(matches!(&r, Ok((v, _)) if v.1.len() == 1 && v.2.len() == 1), "two borrowed fields share the scratch");
    kani::cover!(r.is_err() && slen == 0, "too-small scratch rejected");
}

static CRC32: crc::Crc<u32> = crc::Crc::<u32>::new(&crc::CRC_32_ISCSI);
static CRC8: crc::Crc<u8> = crc::Crc::<u8>::new(&crc::CRC_8_SMBUS);

#[kani::proof]
#[kani::unwind(13)]
//@ tier=quick class=core cap=600 bounds="CRC-checked decoding (widths 8 and 32): every byte string 0..=7 as a sequence probe: size_hint never panics and never exceeds the bytes remaining"
fn c04_size_hint_crc_flavor() {
    let a: [u8; 7] = kani::any();
    let n: usize = kani::any();
    kani::assume(n <= 7);
    let s = &a[..n];
    let r = postcard::from_bytes_crc32::<HintProbe>(s, CRC32.digest());
    if let Ok(HintProbe(Some(h))) = &r {
        assert!(*h <= n, "size_hint exceeds the input length");
    }
    let r8 = postcard::de_flavors::crc::from_bytes_u8::<HintProbe>(s, CRC8.digest());
    if let Ok(HintProbe(Some(h))) = &r8 {
        assert!(*h <= n, "size_hint exceeds the input length");
    }
    kani::cover!(r.is_ok() || r8.is_ok(), "some frame passes the CRC");
    kani::cover!(n == 1, "fewer bytes than the checksum width reachable");
}
