//! C06 — COBS-framed output is one well-formed frame (standard COBS + 0x00 sentinel), decodes
//! back, and frame-at-a-time decoding walks a buffer of several frames.
use crate::c01::any_bytes;
use crate::cobs_ref::*;
use crate::types::*;
use postcard::ser_flavors::{AllocVec, Cobs, Flavor, HVec, Slice};
use serde::{Deserialize, Serialize};

/// compare a real frame with reference-COBS(msg) ++ 00, and the structural claims
fn frame_is_reference(out: &[u8], msg: &[u8]) {
    let e = cobs_encode(msg);
    assert!(out.len() == e.n + 1, "frame length differs from standard COBS + sentinel");
    let mut i = 0;
    while i < e.n {
        assert!(out[i] == e.b[i], "frame byte differs from standard COBS");
        assert!(out[i] != 0, "interior zero byte in the frame");
        i += 1;
    }
    assert!(out[e.n] == 0, "frame does not end with the sentinel");
    // n + floor(n/254) + 2 ; for n < 254 that is n + 2 whether or not the message contains zeros
    assert!(out.len() == msg.len() + msg.len() / 254 + 2);
}

macro_rules! all_messages_slice {
    ($name:ident, $len:literal, $unwind:literal) => {
        #[kani::proof]
        #[kani::unwind($unwind)]
        fn $name() {
            let msg: [u8; $len] = kani::any();
            let n: usize = kani::any();
            kani::assume(n <= $len);
            let mut buf = [0u8; $len + 4];
            let mut f = Cobs::try_new(Slice::new(&mut buf[..])).unwrap();
            let mut i = 0;
            while i < n {
                f.try_push(msg[i]).unwrap();
                i += 1;
            }
            let out = f.finalize().unwrap();
            frame_is_reference(out, &msg[..n]);
            kani::cover!(n == $len && msg[0] == 0 && msg[$len - 1] == 0, "leading and trailing zero reachable");
            kani::cover!(n == $len && msg[1] != 0, "non-zero byte reachable");
        }
    };
}

//@ tier=quick class=core cap=600 bounds="every message of 0..=8 bytes (full alphabet) pushed byte-by-byte through Cobs<Slice>"
all_messages_slice!(c06_all_msgs8_slice, 8, 12);
//@ tier=thorough class=core cap=1800 bounds="every message of 0..=12 bytes through Cobs<Slice>"
all_messages_slice!(c06_all_msgs12_slice, 12, 16);

#[kani::proof]
#[kani::unwind(12)]
//@ tier=thorough class=core cap=1800 bounds="every message of 0..=8 bytes through Cobs<HVec<12>>"
fn c06_all_msgs8_hvec() {
    let msg: [u8; 8] = kani::any();
    let n: usize = kani::any();
    kani::assume(n <= 8);
    let mut f = Cobs::try_new(HVec::<12>::new()).unwrap();
    let mut i = 0;
    while i < n {
        f.try_push(msg[i]).unwrap();
        i += 1;
    }
    let out = f.finalize().unwrap();
    frame_is_reference(&out[..], &msg[..n]);
    kani::cover!(n == 8 && msg[0] == 0, "leading zero reachable");
}

#[kani::proof]
#[kani::unwind(10)]
//@ tier=thorough class=best cap=1800 bounds="every message of 0..=4 bytes through Cobs<AllocVec>"
fn c06_all_msgs4_allocvec() {
    let msg: [u8; 4] = kani::any();
    let n: usize = kani::any();
    kani::assume(n <= 4);
    let mut f = Cobs::try_new(AllocVec::new()).unwrap();
    let mut i = 0;
    while i < n {
        f.try_push(msg[i]).unwrap();
        i += 1;
    }
    let out = f.finalize().unwrap();
    frame_is_reference(&out[..], &msg[..n]);
    kani::cover!(n == 4 && msg[0] == 0, "leading zero reachable");
    core::mem::forget(out);
}

/// (b) values: to_slice_cobs(v) == RefCobs(to_slice(v)) ++ 00 and decodes to v; the other two storages
/// produce the same bytes (separate harnesses: one real call + one comparison each).
macro_rules! value_frame_slice {
    ($name:ident, $ty:ty, $cap:literal, $unwind:literal) => {
        #[kani::proof]
        #[kani::unwind($unwind)]
        fn $name() {
            let v: $ty = kani::any();
            let mut pb = [0u8; $cap];
            let plain = postcard::to_slice(&v, &mut pb).unwrap();
            let mut fb = [0u8; $cap + 2];
            let frame = postcard::to_slice_cobs(&v, &mut fb).unwrap();
            frame_is_reference(frame, plain);
            let flen = frame.len();
            let back: $ty = postcard::from_bytes_cobs(frame).unwrap();
            assert!(back == v, "COBS frame does not decode back to the value");
            kani::cover!(flen == $cap + 2, "longest frame reachable");
        }
    };
}
macro_rules! value_frame_hvec {
    ($name:ident, $ty:ty, $cap:literal, $unwind:literal) => {
        #[kani::proof]
        #[kani::unwind($unwind)]
        fn $name() {
            let v: $ty = kani::any();
            let mut fb = [0u8; $cap + 2];
            let frame = postcard::to_slice_cobs(&v, &mut fb).unwrap();
            let flen = frame.len();
            let hv: heapless::Vec<u8, { $cap + 2 }> = postcard::to_vec_cobs(&v).unwrap();
            assert!(hv.len() == flen, "to_vec_cobs length differs from to_slice_cobs");
            let mut i = 0;
            while i < flen {
                assert!(hv[i] == frame[i], "to_vec_cobs bytes differ from to_slice_cobs");
                i += 1;
            }
            kani::cover!(flen == $cap + 2, "longest frame reachable");
        }
    };
}
macro_rules! value_frame_alloc {
    ($name:ident, $ty:ty, $cap:literal, $unwind:literal) => {
        #[kani::proof]
        #[kani::unwind($unwind)]
        fn $name() {
            let v: $ty = kani::any();
            let mut fb = [0u8; $cap + 2];
            let frame = postcard::to_slice_cobs(&v, &mut fb).unwrap();
            let flen = frame.len();
            let av = postcard::to_allocvec_cobs(&v).unwrap();
            assert!(av.len() == flen, "to_allocvec_cobs length differs from to_slice_cobs");
            let mut i = 0;
            while i < flen {
                assert!(av[i] == frame[i], "to_allocvec_cobs bytes differ from to_slice_cobs");
                i += 1;
            }
            kani::cover!(flen == $cap + 2, "longest frame reachable");
            core::mem::forget(av);
        }
    };
}
//@ tier=quick class=core cap=900 bounds="all u32 values: to_slice_cobs vs reference COBS of the plain bytes, decode back"
value_frame_slice!(c06_value_u32, u32, 5, 9);
//@ tier=thorough class=core cap=1800 bounds="all u64 values: to_slice_cobs vs reference, decode back"
value_frame_slice!(c06_value_u64, u64, 10, 14);
//@ tier=thorough class=core cap=1800 bounds="all Named values: to_slice_cobs vs reference, decode back"
value_frame_slice!(c06_value_named, Named, 9, 13);
//@ tier=thorough class=core cap=1800 bounds="all u32 values: to_vec_cobs == to_slice_cobs"
value_frame_hvec!(c06_value_hvec_u32, u32, 5, 9);
//@ tier=thorough class=best cap=1800 bounds="all u32 values: to_allocvec_cobs == to_slice_cobs (heap)"
value_frame_alloc!(c06_value_alloc_u32, u32, 5, 9);

/// (c) behaviour around multiples of 254: R concrete non-zero bytes, then a window of up to 8
/// fully symbolic bytes.  Prefix VALUES are concrete (stated cut); everything the window can
/// influence is compared with the reference.
macro_rules! boundary {
    ($name:ident, $r:literal, $zero_at:expr, $unwind:literal) => {
        #[kani::proof]
        #[kani::unwind($unwind)]
        fn $name() {
            const R: usize = $r;
            const W: usize = 6;
            const TOT: usize = R + W;
            let zero_at: Option<usize> = $zero_at;
            let w: [u8; W] = kani::any();
            let wl: usize = kani::any();
            kani::assume(wl <= W);
            let n = R + wl;
            // real encoder: concrete prefix loop, then the symbolic window
            let mut buf = [0u8; TOT + TOT / 254 + 3];
            let mut f = Cobs::try_new(Slice::new(&mut buf[..])).unwrap();
            let mut want = [0u8; TOT + TOT / 254 + 3];
            let mut e = RefEnc::new(&mut want[..]);
            let mut i = 0;
            while i < R {
                let x = if Some(i) == zero_at { 0 } else { 0x11 };
                f.try_push(x).unwrap();
                e.push(x);
                i += 1;
            }
            let mut i = 0;
            while i < W {
                if i < wl {
                    f.try_push(w[i]).unwrap();
                    e.push(w[i]);
                }
                i += 1;
            }
            let out = f.finalize().unwrap();
            let m = e.finish();
            assert!(out.len() == m + 1, "frame length differs from standard COBS + sentinel");
            assert!(out[m] == 0, "frame does not end with the sentinel");
            assert!(out.len() <= n + n / 254 + 2);
            // everything from the last code byte the window can still patch to the end
            // (bytes before it are concrete copies of the prefix in both encoders)
            const FROM: usize = (R / 254) * 255;
            let mut i = FROM;
            while i < TOT + TOT / 254 + 2 {
                if i < m {
                    assert!(out[i] == want[i], "frame byte differs from standard COBS");
                    assert!(out[i] != 0, "interior zero byte in the frame");
                }
                i += 1;
            }
            // zero-free message: the length formula is an equality
            let mut zero_free = zero_at.is_none();
            let mut i = 0;
            while i < W {
                if i < wl && w[i] == 0 {
                    zero_free = false;
                }
                i += 1;
            }
            if zero_free {
                assert!(out.len() == n + n / 254 + 2, "zero-free message: length is not n + floor(n/254) + 2");
            }
            kani::cover!(wl == W && (zero_free || zero_at.is_some()), "full window reachable (zero-free unless the prefix holds a zero)");
            kani::cover!(wl == W && w[3] == 0, "zero inside the window reachable");
        }
    };
}
//@ tier=quick class=core cap=900 bounds="251 concrete non-zero bytes + window of 0..=6 symbolic bytes: run lengths 251..257 around the first 254 boundary"
boundary!(c06_boundary_251, 251, None, 263);
//@ tier=thorough class=core cap=1800 bounds="248 concrete + 0..=6 symbolic: run lengths 248..254"
boundary!(c06_boundary_248, 248, None, 263);
//@ tier=thorough class=core cap=1800 bounds="251 concrete (zero at 3) + 0..=6 symbolic"
boundary!(c06_boundary_251_z3, 251, Some(3), 263);
//@ tier=thorough class=core cap=2400 bounds="505 concrete + 0..=6 symbolic: second 254 boundary (508)"
boundary!(c06_boundary_505, 505, None, 507);
//@ tier=thorough class=core cap=2400 bounds="759 concrete + 0..=6 symbolic: third 254 boundary (762)"
boundary!(c06_boundary_759, 759, None, 761);

/// (d) several frames back to back; last sentinel present or not.
macro_rules! frame_sequence {
    ($name:ident, $ty:ty, $frames:literal, $fcap:literal, $unwind:literal) => {
        #[kani::proof]
        #[kani::unwind($unwind)]
        fn $name() {
            const TOT: usize = $frames * $fcap;
            let vals: [$ty; $frames] = kani::any();
            let count: usize = kani::any();
            kani::assume(count >= 1 && count <= $frames);
            let mut stream = [0u8; TOT];
            let mut ends = [0usize; $frames];
            let mut pos = 0;
            let mut k = 0;
            while k < count {
                let l = postcard::to_slice_cobs(&vals[k], &mut stream[pos..]).unwrap().len();
                pos += l;
                ends[k] = pos;
                k += 1;
            }
            let drop_last: bool = kani::any();
            if drop_last {
                pos -= 1;
                ends[count - 1] = pos;
            }
            let base = stream.as_ptr() as usize;
            let mut rest: &mut [u8] = &mut stream[..pos];
            let mut k = 0;
            while k < count {
                let (v, r): ($ty, &mut [u8]) = postcard::take_from_bytes_cobs(rest).unwrap();
                assert!(v == vals[k], "frame decoded to a different value");
                assert!(r.as_ptr() as usize == base + ends[k], "remainder does not start right after the frame's sentinel");
                assert!(r.len() == pos - ends[k]);
                rest = r;
                k += 1;
            }
            assert!(rest.is_empty());
            kani::cover!(count == $frames && drop_last, "all frames, last sentinel missing");
            kani::cover!(count == $frames && !drop_last, "all frames, last sentinel present");
        }
    };
}
//@ tier=quick class=core cap=900 bounds="1..=2 frames of symbolic u16, last sentinel present or absent"
frame_sequence!(c06_frames2_u16, u16, 2, 5, 8);
//@ tier=thorough class=core cap=2400 bounds="1..=3 frames of symbolic u16"
frame_sequence!(c06_frames3_u16, u16, 3, 5, 8);
//@ tier=thorough class=core cap=2400 bounds="1..=3 frames of symbolic (u8,Option<u8>)"
frame_sequence!(c06_frames3_tuple, (u8, Option<u8>), 3, 5, 8);

/// frame-at-a-time decoding of a LONG frame (contains a 0xFF code byte): payload = byte array of 252
/// non-zero bytes (2-byte length prefix + 252 = 254 non-zero bytes), followed by 0..=3 symbolic bytes.
/// The frame is concrete (so that array indices stay concrete for CBMC); the following bytes and their
/// number are symbolic; sentinel present / absent are two harnesses.
macro_rules! take_long_frame {
    ($name:ident, $with_sentinel:literal) => {
        #[kani::proof]
        #[kani::unwind(262)]
        fn $name() {
            use crate::c07::BytesD;
            let mut payload = [0x11u8; 252];
            payload[0] = 0x21;
            payload[100] = 0x22;
            payload[251] = 0x23;
            let mut stream = [0u8; 262];
            let flen = postcard::to_slice_cobs(&crate::c07_bytes_ser(&payload[..]), &mut stream[..258]).unwrap().len();
            assert!(flen == 258, "254 zero-free bytes must frame as FF + 254 + 01 + 00");
            const FRAME_END: usize = if $with_sentinel { 258 } else { 257 };
            let tail: [u8; 3] = kani::any();
            let tl: usize = kani::any();
            kani::assume(tl <= 3);
            if $with_sentinel {
                stream[258] = tail[0];
                stream[259] = tail[1];
                stream[260] = tail[2];
            } else {
                kani::assume(tl == 0);
            }
            let base = stream.as_ptr() as usize;
            let (v, rest): (BytesD, &mut [u8]) = postcard::take_from_bytes_cobs(&mut stream[..FRAME_END + tl]).unwrap();
            assert!(v.0.len() == 252 && v.0[0] == 0x21 && v.0[100] == 0x22 && v.0[251] == 0x23 && v.0[7] == 0x11, "long frame decoded to a different value");
            assert!(rest.as_ptr() as usize == base + FRAME_END, "remainder does not start right after the frame's sentinel");
            assert!(rest.len() == tl, "remainder is not exactly the bytes after the frame");
            if tl > 0 {
                assert!(rest[0] == tail[0]);
            }
            kani::cover!(tl == 3 && tail[0] == 0, "an empty frame follows the long frame");
            kani::cover!(tl == 0, "nothing follows");
        }
    };
}
//@ tier=thorough class=best cap=3000 bounds="one concrete 257-byte frame with a 254-byte zero-free run (0xFF code), sentinel present, 0..=3 symbolic following bytes: value and exact remainder"
take_long_frame!(c06_take_long_frame, true);
//@ tier=thorough class=best cap=3000 bounds="the same long frame with its sentinel missing (end of buffer)"
take_long_frame!(c06_take_long_frame_nosentinel, false);
