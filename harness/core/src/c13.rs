//! C13 — fixed-width integer adapters: exactly size_of bytes in the chosen byte order, full domain.
use serde::{Deserialize, Serialize};

macro_rules! fixint_harness {
    ($name:ident, $ty:ty, $module:literal, $to:ident, $unwind:literal) => {
        #[kani::proof]
        #[kani::unwind($unwind)]
        fn $name() {
            #[derive(Serialize, Deserialize)]
            struct W {
                pre: u8,
                #[serde(with = $module)]
                x: $ty,
                post: u8,
            }
            const SZ: usize = core::mem::size_of::<$ty>();
            let w = W { pre: kani::any(), x: kani::any(), post: kani::any() };
            let mut buf = [0u8; SZ + 4];
            let out = postcard::to_slice(&w, &mut buf).unwrap();
            // exactly size_of bytes between the two marker bytes: never a varint
            assert!(out.len() == SZ + 2);
            assert!(out[0] == w.pre);
            assert!(out[SZ + 1] == w.post);
            let expect = w.x.$to();
            let mut i = 0;
            while i < SZ {
                assert!(out[1 + i] == expect[i]);
                i += 1;
            }
            // decoding returns the integer and consumes exactly the same bytes
            let n = out.len();
            let tail: u8 = kani::any();
            buf[n] = tail;
            let (back, rest): (W, &[u8]) = postcard::take_from_bytes(&buf[..n + 1]).unwrap();
            assert!(back.x == w.x && back.pre == w.pre && back.post == w.post);
            assert!(rest.len() == 1 && rest[0] == tail);
            kani::cover!(w.x != 0, "nonzero value reachable");
        }
    };
}

//@ tier=quick class=core cap=120 bounds="all 2^16 values, struct{u8, fixint u16, u8}"
fixint_harness!(c13_le_u16, u16, "postcard::fixint::le", to_le_bytes, 20);
//@ tier=quick class=core cap=120 bounds="all 2^16 values"
fixint_harness!(c13_be_u16, u16, "postcard::fixint::be", to_be_bytes, 20);
//@ tier=quick class=core cap=120 bounds="all 2^16 values"
fixint_harness!(c13_le_i16, i16, "postcard::fixint::le", to_le_bytes, 20);
//@ tier=quick class=core cap=120 bounds="all 2^16 values"
fixint_harness!(c13_be_i16, i16, "postcard::fixint::be", to_be_bytes, 20);
//@ tier=quick class=core cap=120 bounds="all 2^32 values"
fixint_harness!(c13_le_u32, u32, "postcard::fixint::le", to_le_bytes, 20);
//@ tier=quick class=core cap=120 bounds="all 2^32 values"
fixint_harness!(c13_be_u32, u32, "postcard::fixint::be", to_be_bytes, 20);
//@ tier=quick class=core cap=120 bounds="all 2^32 values"
fixint_harness!(c13_le_i32, i32, "postcard::fixint::le", to_le_bytes, 20);
//@ tier=quick class=core cap=120 bounds="all 2^32 values"
fixint_harness!(c13_be_i32, i32, "postcard::fixint::be", to_be_bytes, 20);
//@ tier=quick class=core cap=120 bounds="all 2^64 values"
fixint_harness!(c13_le_u64, u64, "postcard::fixint::le", to_le_bytes, 20);
//@ tier=quick class=core cap=120 bounds="all 2^64 values"
fixint_harness!(c13_be_u64, u64, "postcard::fixint::be", to_be_bytes, 20);
//@ tier=quick class=core cap=120 bounds="all 2^64 values"
fixint_harness!(c13_le_i64, i64, "postcard::fixint::le", to_le_bytes, 20);
//@ tier=quick class=core cap=120 bounds="all 2^64 values"
fixint_harness!(c13_be_i64, i64, "postcard::fixint::be", to_be_bytes, 20);
//@ tier=quick class=core cap=120 bounds="all 2^128 values"
fixint_harness!(c13_le_u128, u128, "postcard::fixint::le", to_le_bytes, 20);
//@ tier=quick class=core cap=120 bounds="all 2^128 values"
fixint_harness!(c13_be_u128, u128, "postcard::fixint::be", to_be_bytes, 20);
//@ tier=quick class=core cap=120 bounds="all 2^128 values"
fixint_harness!(c13_le_i128, i128, "postcard::fixint::le", to_le_bytes, 20);
//@ tier=quick class=core cap=120 bounds="all 2^128 values"
fixint_harness!(c13_be_i128, i128, "postcard::fixint::be", to_be_bytes, 20);
