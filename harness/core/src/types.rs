//! Corpus K: the concrete type instantiations the harnesses quantify over.
use serde::{Deserialize, Serialize};

#[derive(Serialize, Deserialize, PartialEq, Eq, Debug, Clone, Copy)]
#[cfg_attr(kani, derive(kani::Arbitrary))]
pub struct Unit;

#[derive(Serialize, Deserialize, PartialEq, Eq, Debug, Clone, Copy)]
#[cfg_attr(kani, derive(kani::Arbitrary))]
pub struct New(pub u32);

#[derive(Serialize, Deserialize, PartialEq, Eq, Debug, Clone, Copy)]
#[cfg_attr(kani, derive(kani::Arbitrary))]
pub struct Tup(pub u8, pub i16);

#[derive(Serialize, Deserialize, PartialEq, Eq, Debug, Clone, Copy)]
#[cfg_attr(kani, derive(kani::Arbitrary))]
pub struct Named {
    pub a: u16,
    pub b: Option<i32>,
}

#[derive(Serialize, Deserialize, PartialEq, Eq, Debug, Clone, Copy)]
#[cfg_attr(kani, derive(kani::Arbitrary))]
pub enum E4 {
    A,
    B(u16),
    C(u8, i32),
    D { x: i64, y: bool },
}

#[derive(Serialize, Deserialize, PartialEq, Eq, Debug, Clone, Copy)]
#[cfg_attr(kani, derive(kani::Arbitrary))]
pub struct Nest(pub Option<E4>, pub (u8, New));

/// A small named struct that borrows from the input.
#[derive(Serialize, Deserialize, PartialEq, Eq, Debug, Clone, Copy)]
pub struct Borrowing<'a> {
    pub id: u16,
    pub s: &'a str,
    #[serde(with = "bytes_as_bytes")]
    pub b: &'a [u8],
    pub f: Option<bool>,
}

/// serde's `&[u8]` already (de)serialises as bytes; this module only makes that explicit.
pub mod bytes_as_bytes {
    use serde::{Deserialize, Deserializer, Serializer};
    pub fn serialize<S: Serializer>(v: &&[u8], s: S) -> Result<S::Ok, S::Error> {
        s.serialize_bytes(v)
    }
    pub fn deserialize<'de, D: Deserializer<'de>>(d: D) -> Result<&'de [u8], D::Error> {
        <&'de [u8]>::deserialize(d)
    }
}

/// Array-backed map type that goes through `serialize_map` / `deserialize_map`.
#[derive(PartialEq, Eq, Debug, Clone, Copy)]
pub struct PairMap<const N: usize> {
    pub len: usize,
    pub kv: [(u8, u16); N],
}

impl<const N: usize> Serialize for PairMap<N> {
    fn serialize<S: serde::Serializer>(&self, s: S) -> Result<S::Ok, S::Error> {
        use serde::ser::SerializeMap;
        let mut m = s.serialize_map(Some(self.len))?;
        let mut i = 0;
        while i < self.len {
            m.serialize_entry(&self.kv[i].0, &self.kv[i].1)?;
            i += 1;
        }
        m.end()
    }
}

impl<'de, const N: usize> Deserialize<'de> for PairMap<N> {
    fn deserialize<D: serde::Deserializer<'de>>(d: D) -> Result<Self, D::Error> {
        struct V<const N: usize>;
        impl<'de, const N: usize> serde::de::Visitor<'de> for V<N> {
            type Value = PairMap<N>;
            fn expecting(&self, _f: &mut core::fmt::Formatter) -> core::fmt::Result {
                Ok(())
            }
            fn visit_map<A: serde::de::MapAccess<'de>>(self, mut a: A) -> Result<PairMap<N>, A::Error> {
                let mut out = PairMap { len: 0, kv: [(0, 0); N] };
                while let Some((k, v)) = a.next_entry::<u8, u16>()? {
                    if out.len >= N {
                        return Err(<A::Error as serde::de::Error>::custom("full"));
                    }
                    out.kv[out.len] = (k, v);
                    out.len += 1;
                }
                Ok(out)
            }
        }
        d.deserialize_map(V::<N>)
    }
}
