//! C02 — the encoder emits exactly the published wire format (byte-for-byte against SpecSer,
//! an encoder written from spec/src/wire-format.md), canonical varints, unknown lengths refused,
//! collect_str == serialize_str of the formatted text.
use crate::c01::{any_bytes, any_str};
use crate::spec::*;
use crate::types::*;
use serde::{Deserialize, Serialize};

pub fn same_as_spec<T: Serialize + ?Sized>(v: &T, cap: usize) -> usize {
    let mut buf = [0u8; CAP];
    let real = postcard::to_slice(v, &mut buf[..cap]).unwrap();
    let spec = spec_encode(v);
    assert!(real.len() == spec.n);
    let mut i = 0;
    while i < spec.n {
        assert!(real[i] == spec.b[i]);
        i += 1;
    }
    spec.n
}

macro_rules! wire_eq {
    ($name:ident, $ty:ty, $cap:literal, $unwind:literal) => {
        #[kani::proof]
        #[kani::unwind($unwind)]
        fn $name() {
            let v: $ty = kani::any();
            let n = same_as_spec(&v, $cap);
            kani::cover!(n == $cap, "maximum-length encoding reachable");
        }
    };
}

//@ tier=quick class=core cap=120 bounds="all values"
wire_eq!(c02_wire_bool, bool, 1, 4);
//@ tier=quick class=core cap=120 bounds="all values"
wire_eq!(c02_wire_u8, u8, 1, 4);
//@ tier=quick class=core cap=120 bounds="all values"
wire_eq!(c02_wire_i8, i8, 1, 4);
//@ tier=quick class=core cap=120 bounds="all 2^16 values vs spec varint"
wire_eq!(c02_wire_u16, u16, 3, 6);
//@ tier=quick class=core cap=120 bounds="all 2^16 values vs spec zig-zag + varint"
wire_eq!(c02_wire_i16, i16, 3, 6);
//@ tier=quick class=core cap=120 bounds="all 2^32 values"
wire_eq!(c02_wire_u32, u32, 5, 8);
//@ tier=quick class=core cap=120 bounds="all 2^32 values"
wire_eq!(c02_wire_i32, i32, 5, 8);
//@ tier=quick class=core cap=240 bounds="all 2^64 values"
wire_eq!(c02_wire_u64, u64, 10, 13);
//@ tier=quick class=core cap=240 bounds="all 2^64 values"
wire_eq!(c02_wire_i64, i64, 10, 13);
//@ tier=quick class=core cap=400 bounds="all 2^128 values"
wire_eq!(c02_wire_u128, u128, 19, 22);
//@ tier=quick class=core cap=400 bounds="all 2^128 values"
wire_eq!(c02_wire_i128, i128, 19, 22);
//@ tier=thorough class=core cap=600 bounds="every char; UTF-8 by own encoder"
wire_eq!(c02_wire_char, char, 5, 8);
//@ tier=thorough class=core cap=120 bounds="unit struct: no bytes"
wire_eq!(c02_wire_unit_struct, Unit, 0, 4);
//@ tier=thorough class=core cap=240 bounds="all values of New(u32): no framing"
wire_eq!(c02_wire_newtype, New, 5, 8);
//@ tier=thorough class=core cap=240 bounds="all values of Tup(u8,i16): no arity"
wire_eq!(c02_wire_tuple_struct, Tup, 4, 7);
//@ tier=quick class=core cap=400 bounds="all values of Named{a:u16,b:Option<i32>}: no names, option tags 0/1"
wire_eq!(c02_wire_named, Named, 9, 12);
//@ tier=quick class=core cap=600 bounds="all values of E4: variant index varint(u32), four variant forms"
wire_eq!(c02_wire_enum4, E4, 12, 15);
//@ tier=thorough class=core cap=1200 bounds="all values of Nest(Option<E4>,(u8,New))"
wire_eq!(c02_wire_nest, Nest, 19, 22);
//@ tier=thorough class=core cap=400 bounds="all values of Result<u8,i16>"
wire_eq!(c02_wire_result, Result<u8, i16>, 4, 7);
//@ tier=thorough class=core cap=400 bounds="all values of [u16;3]: no length prefix"
wire_eq!(c02_wire_array, [u16; 3], 9, 12);
//@ tier=thorough class=core cap=400 bounds="all values of Option<Option<u8>>"
wire_eq!(c02_wire_optopt, Option<Option<u8>>, 3, 6);
//@ tier=thorough class=core cap=600 bounds="all values of (u8,u16,u32,i8,i16)"
wire_eq!(c02_wire_tuple5, (u8, u16, u32, i8, i16), 13, 16);

#[kani::proof]
#[kani::unwind(6)]
//@ tier=quick class=core cap=300 bounds="every char below U+0800; full range in c02_wire_char (thorough)"
fn c02_wire_char_2byte() {
    let v: char = kani::any();
    kani::assume((v as u32) < 0x800);
    let n = same_as_spec(&v, 3);
    kani::cover!(n == 3, "2-byte scalar reachable");
}

#[kani::proof]
#[kani::unwind(8)]
//@ tier=quick class=core cap=180 bounds="all 2^32 f32 bit patterns: little-endian IEEE-754 bytes"
fn c02_wire_f32() {
    let v = f32::from_bits(kani::any());
    let n = same_as_spec(&v, 4);
    assert!(n == 4);
    kani::cover!(v.is_nan(), "NaN reachable");
}

#[kani::proof]
#[kani::unwind(12)]
//@ tier=quick class=core cap=180 bounds="all 2^64 f64 bit patterns"
fn c02_wire_f64() {
    let v = f64::from_bits(kani::any());
    let n = same_as_spec(&v, 8);
    assert!(n == 8);
    kani::cover!(v.is_nan(), "NaN reachable");
}

#[kani::proof]
#[kani::unwind(13)]
//@ tier=quick class=core cap=400 bounds="all usize/isize values: identical to the u64/i64 encoding of the same number (64-bit host)"
fn c02_wire_pointer_sized() {
    let u: usize = kani::any();
    let mut b1 = [0u8; 10];
    let mut b2 = [0u8; 10];
    let r1 = postcard::to_slice(&u, &mut b1).unwrap();
    let r2 = postcard::to_slice(&(u as u64), &mut b2).unwrap();
    assert!(r1.len() == r2.len());
    let mut k = 0;
    while k < r1.len() {
        assert!(r1[k] == r2[k]);
        k += 1;
    }
    let i: isize = kani::any();
    let mut b3 = [0u8; 10];
    let mut b4 = [0u8; 10];
    let r3 = postcard::to_slice(&i, &mut b3).unwrap();
    let r4 = postcard::to_slice(&(i as i64), &mut b4).unwrap();
    assert!(r3.len() == r4.len());
    let mut k = 0;
    while k < r3.len() {
        assert!(r3[k] == r4[k]);
        k += 1;
    }
    same_as_spec(&u, 10);
    same_as_spec(&i, 10);
    kani::cover!(r1.len() == 10 && r3.len() == 10, "maximum length reachable");
}

#[kani::proof]
#[kani::unwind(8)]
//@ tier=quick class=core cap=400 bounds="every &str of 0..=4 bytes: varint(usize) length + raw bytes"
fn c02_wire_str() {
    let mut store = [0u8; 4];
    let s = any_str(&mut store);
    let n = same_as_spec(s, 5);
    assert!(n == s.len() + 1);
    kani::cover!(n == 5, "full length reachable");
}

#[kani::proof]
#[kani::unwind(8)]
//@ tier=quick class=core cap=400 bounds="every byte array of 0..=4 bytes through serialize_bytes"
fn c02_wire_bytes() {
    #[derive(Serialize)]
    struct B<'a>(#[serde(with = "crate::types::bytes_as_bytes")] &'a [u8]);
    let mut store = [0u8; 4];
    let s = any_bytes(&mut store);
    let n = same_as_spec(&B(s), 5);
    assert!(n == s.len() + 1);
    kani::cover!(n == 5, "full length reachable");
}

/// A byte string whose length prefix needs a 2-byte varint (len 128..=130) — the only way to see a
/// multi-byte varint(usize) on the wire.  Content concrete (0x55), length symbolic.
#[kani::proof]
#[kani::unwind(134)]
//@ tier=thorough class=core cap=900 bounds="byte arrays of length 126..=130 (2-byte length varint), content concrete"
fn c02_wire_bytes_len128() {
    #[derive(Serialize)]
    struct B<'a>(#[serde(with = "crate::types::bytes_as_bytes")] &'a [u8]);
    let store = [0x55u8; 130];
    let len: usize = kani::any();
    kani::assume(len >= 126 && len <= 130);
    let mut buf = [0u8; 133];
    let out = postcard::to_slice(&B(&store[..len]), &mut buf).unwrap();
    if len < 128 {
        assert!(out.len() == len + 1 && out[0] == len as u8);
    } else {
        assert!(out.len() == len + 2 && out[0] == (len as u8 & 0x7f) | 0x80 && out[1] == 1);
    }
    assert!(out[out.len() - 1] == 0x55);
    kani::cover!(len == 130, "2-byte prefix reachable");
}

#[kani::proof]
#[kani::unwind(12)]
//@ tier=thorough class=core cap=600 bounds="every heapless::Vec<u16,3>: varint count + elements"
fn c02_wire_seq() {
    let mut v: heapless::Vec<u16, 3> = heapless::Vec::new();
    let len: usize = kani::any();
    kani::assume(len <= 3);
    let mut i = 0;
    while i < len {
        v.push(kani::any()).unwrap();
        i += 1;
    }
    let n = same_as_spec(&v, 10);
    kani::cover!(n == 10, "full length reachable");
}

#[kani::proof]
#[kani::unwind(11)]
//@ tier=thorough class=core cap=600 bounds="every PairMap<2>: varint count + (key,value) pairs"
fn c02_wire_map() {
    let len: usize = kani::any();
    kani::assume(len <= 2);
    let mut m = PairMap::<2> { len, kv: [(0, 0); 2] };
    let mut i = 0;
    while i < len {
        m.kv[i] = (kani::any(), kani::any());
        i += 1;
    }
    let n = same_as_spec(&m, 9);
    kani::cover!(n == 9, "full length reachable");
}

/// `serialize_seq(None)` / `serialize_map(None)` must be refused, not mis-framed.
struct UnknownLenSeq(u8);
impl Serialize for UnknownLenSeq {
    fn serialize<S: serde::Serializer>(&self, s: S) -> Result<S::Ok, S::Error> {
        use serde::ser::SerializeSeq;
        let mut q = s.serialize_seq(None)?;
        q.serialize_element(&self.0)?;
        q.end()
    }
}
struct UnknownLenMap(u8);
impl Serialize for UnknownLenMap {
    fn serialize<S: serde::Serializer>(&self, s: S) -> Result<S::Ok, S::Error> {
        use serde::ser::SerializeMap;
        let mut q = s.serialize_map(None)?;
        q.serialize_entry(&self.0, &self.0)?;
        q.end()
    }
}

#[kani::proof]
#[kani::unwind(6)]
//@ tier=quick class=core cap=240 bounds="seq/map with unknown length, element symbolic, preceded by a symbolic u8 field"
fn c02_unknown_len_refused() {
    let x: u8 = kani::any();
    let mut buf = [0xEEu8; 8];
    let r = postcard::to_slice(&(x, UnknownLenSeq(kani::any())), &mut buf);
    assert!(matches!(r, Err(postcard::Error::SerializeSeqLengthUnknown)));
    // nothing after the first field was emitted
    assert!(buf[0] == x && buf[1] == 0xEE);
    let mut buf2 = [0xEEu8; 8];
    let r2 = postcard::to_slice(&(x, UnknownLenMap(kani::any())), &mut buf2);
    assert!(matches!(r2, Err(postcard::Error::SerializeSeqLengthUnknown)));
    assert!(buf2[0] == x && buf2[1] == 0xEE);
    kani::cover!(x == 7, "reached");
}

/// A Display type that emits its text in two `write_str` pieces; collect_str must encode exactly
/// like serialize_str of the concatenation.
struct TwoPiece<'a>(&'a str, &'a str);
impl core::fmt::Display for TwoPiece<'_> {
    fn fmt(&self, f: &mut core::fmt::Formatter<'_>) -> core::fmt::Result {
        f.write_str(self.0)?;
        f.write_str(self.1)
    }
}
struct Collected<'a>(TwoPiece<'a>);
impl Serialize for Collected<'_> {
    fn serialize<S: serde::Serializer>(&self, s: S) -> Result<S::Ok, S::Error> {
        s.collect_str(&self.0)
    }
}

#[kani::proof]
#[kani::unwind(6)]
//@ tier=quick class=core cap=900 bounds="Display emitting two write_str pieces (empty or one ASCII byte, then empty or one 2-byte scalar) through core::fmt::write"
fn c02_collect_str() {
    // first piece: "" or one ASCII byte; second piece: "" or ONE two-byte scalar (keeps the query small even
    // when the code under test counts characters, which is what a wrong length prefix would come from)
    let mut s1 = [0u8; 2];
    let mut s2 = [0u8; 2];
    let a = piece(&mut s1);
    let b = piece(&mut s2);
    kani::assume(a.len() <= 1);
    kani::assume(b.len() != 1);
    kani::assume(b.len() == 0 || b.as_bytes()[0] >= 0xC2);
    // the formatted text = a ++ b
    let mut whole = [0u8; 4];
    let mut n = 0;
    let mut i = 0;
    while i < a.len() {
        whole[n] = a.as_bytes()[i];
        n += 1;
        i += 1;
    }
    let mut i = 0;
    while i < b.len() {
        whole[n] = b.as_bytes()[i];
        n += 1;
        i += 1;
    }
    let text = unsafe { core::str::from_utf8_unchecked(&whole[..n]) };
    let mut b1 = [0u8; 6];
    let mut b2 = [0u8; 6];
    let r1 = postcard::to_slice(&Collected(TwoPiece(a, b)), &mut b1).unwrap();
    let r2 = postcard::to_slice(text, &mut b2).unwrap();
    assert!(r1.len() == r2.len(), "collect_str length differs from serialize_str of the formatted text");
    let mut i = 0;
    while i < r1.len() {
        assert!(r1[i] == r2[i], "collect_str bytes differ from serialize_str of the formatted text");
        i += 1;
    }
    // and it is the spec encoding: varint(byte length) ++ bytes
    assert!(r1[0] as usize == n && r1.len() == n + 1);
    kani::cover!(a.len() == 1 && b.len() == 2, "ASCII piece + 2-byte scalar piece reachable");
    kani::cover!(n == 3, "ASCII byte followed by a 2-byte scalar reachable");
}

/// 0..=2 bytes of well-formed UTF-8: "", one ASCII byte, two ASCII bytes, or one 2-byte scalar
fn piece(store: &mut [u8; 2]) -> &str {
    *store = kani::any();
    let len: usize = kani::any();
    kani::assume(len <= 2);
    let ok = match len {
        0 => true,
        1 => store[0] < 0x80,
        _ => (store[0] < 0x80 && store[1] < 0x80) || (store[0] >= 0xC2 && store[0] <= 0xDF && store[1] >= 0x80 && store[1] <= 0xBF),
    };
    kani::assume(ok);
    unsafe { core::str::from_utf8_unchecked(&store[..len]) }
}

#[kani::proof]
#[kani::unwind(12)]
//@ tier=quick class=core cap=600 bounds="collect_str of CONCRETE multi-byte text (pieces 'a\u{e9}' and '\u{65e5}') preceded by a symbolic u8: byte length prefix, not character count (a concrete companion to c02_collect_str, whose symbolic text makes character-counting code too slow to decide)"
fn c02_collect_str_multibyte_concrete() {
    let x: u8 = kani::any();
    let mut b1 = [0u8; 10];
    let mut b2 = [0u8; 10];
    let r1 = postcard::to_slice(&(x, Collected(TwoPiece("a\u{e9}", "\u{65e5}"))), &mut b1).unwrap();
    let r2 = postcard::to_slice(&(x, "a\u{e9}\u{65e5}"), &mut b2).unwrap();
    assert!(r1.len() == 8 && r2.len() == 8, "length of the encoded text is not 1 + 1 + 6 bytes");
    assert!(r1[1] == 6, "length prefix is not the UTF-8 byte length");
    let mut i = 0;
    while i < 8 {
        assert!(r1[i] == r2[i], "collect_str bytes differ from serialize_str of the formatted text");
        i += 1;
    }
    kani::cover!(x == 7, "reached");
}

#[kani::proof]
#[kani::unwind(3)]
//@ tier=quick class=core cap=300 bounds="as c02_collect_str_multibyte_concrete but loop-free in the harness and unwind 3, so that a character-counting length pass (core::str::count::do_count_chars, whose loops CBMC does not fold) is cut short instead of exhausting the cap; text pieces 'a\u{e9}' and '\u{65e5}', symbolic leading u8"
fn c02_collect_str_multibyte_concrete_u3() {
    let x: u8 = kani::any();
    let mut b1 = [0u8; 10];
    let r1 = postcard::to_slice(&(x, Collected(TwoPiece("a\u{e9}", "\u{65e5}"))), &mut b1).unwrap();
    assert!(r1.len() == 8, "length of the encoded text is not 1 + 1 + 6 bytes");
    assert!(r1[0] == x && r1[1] == 6, "length prefix is not the UTF-8 byte length");
    assert!(r1[2] == 0x61 && r1[3] == 0xC3 && r1[4] == 0xA9 && r1[5] == 0xE6 && r1[6] == 0x97 && r1[7] == 0xA5,
            "collect_str bytes differ from the UTF-8 bytes of the formatted text");
    kani::cover!(x == 7, "reached");
}
