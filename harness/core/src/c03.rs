//! C03 — the decoder accepts exactly the encodings the specification allows.
//!
//! Every byte string up to L bytes (array + symbolic length) is fed to the real
//! `take_from_bytes::<T>` and to a reference decoder composed from `spec::Rd` primitives
//! (written from wire-format.md incl. its Canonicalization table).  Same accept/reject, same
//! value, same consumed length, remainder pointer = input + consumed, same error kind for the
//! kinds the property names.  Second family: every strict prefix of a valid message fails with
//! unexpected-end.
use crate::spec::*;
use crate::types::*;
use serde::{Deserialize, Serialize};

/// Reference decoding of a corpus type, composed by hand from the spec primitives.
pub trait SpecDe<'a>: Sized {
    fn spec(rd: &mut Rd<'a>) -> Result<Self, K>;
    fn same(&self, other: &Self) -> bool;
}

macro_rules! spec_uint {
    ($ty:ty, $bits:literal) => {
        impl<'a> SpecDe<'a> for $ty {
            fn spec(rd: &mut Rd<'a>) -> Result<Self, K> {
                rd.varint($bits).map(|v| v as $ty)
            }
            fn same(&self, o: &Self) -> bool {
                self == o
            }
        }
    };
}
macro_rules! spec_sint {
    ($ty:ty, $bits:literal) => {
        impl<'a> SpecDe<'a> for $ty {
            fn spec(rd: &mut Rd<'a>) -> Result<Self, K> {
                rd.varint($bits).map(|z| Rd::unzigzag(z) as $ty)
            }
            fn same(&self, o: &Self) -> bool {
                self == o
            }
        }
    };
}
spec_uint!(u16, 16);
spec_uint!(u32, 32);
spec_uint!(u64, 64);
spec_uint!(u128, 128);
spec_uint!(usize, 64);
spec_sint!(i16, 16);
spec_sint!(i32, 32);
spec_sint!(i64, 64);
spec_sint!(i128, 128);
spec_sint!(isize, 64);

impl<'a> SpecDe<'a> for u8 {
    fn spec(rd: &mut Rd<'a>) -> Result<Self, K> {
        rd.u8()
    }
    fn same(&self, o: &Self) -> bool {
        self == o
    }
}
impl<'a> SpecDe<'a> for i8 {
    fn spec(rd: &mut Rd<'a>) -> Result<Self, K> {
        rd.u8().map(|b| b as i8)
    }
    fn same(&self, o: &Self) -> bool {
        self == o
    }
}
impl<'a> SpecDe<'a> for bool {
    fn spec(rd: &mut Rd<'a>) -> Result<Self, K> {
        rd.bool()
    }
    fn same(&self, o: &Self) -> bool {
        self == o
    }
}
impl<'a> SpecDe<'a> for f32 {
    fn spec(rd: &mut Rd<'a>) -> Result<Self, K> {
        let p = rd.fixed(4)?;
        let s = rd.s;
        let bits = s[p] as u32 | (s[p + 1] as u32) << 8 | (s[p + 2] as u32) << 16 | (s[p + 3] as u32) << 24;
        Ok(f32::from_bits(bits))
    }
    fn same(&self, o: &Self) -> bool {
        self.to_bits() == o.to_bits()
    }
}
impl<'a> SpecDe<'a> for f64 {
    fn spec(rd: &mut Rd<'a>) -> Result<Self, K> {
        let p = rd.fixed(8)?;
        let mut bits = 0u64;
        let mut i = 0;
        while i < 8 {
            bits |= (rd.s[p + i] as u64) << (8 * i);
            i += 1;
        }
        Ok(f64::from_bits(bits))
    }
    fn same(&self, o: &Self) -> bool {
        self.to_bits() == o.to_bits()
    }
}
impl<'a> SpecDe<'a> for char {
    /// "A char will be encoded in UTF-8 form, and encoded as a string": a string holding exactly
    /// one scalar value.  More than 4 bytes can never be one scalar -> bad char (before the bytes
    /// are even looked at, so a short input with a huge length is still "bad char").
    fn spec(rd: &mut Rd<'a>) -> Result<Self, K> {
        let n = rd.varint(64)?;
        if n > 4 {
            return Err(K::BadChar);
        }
        let p = rd.fixed(n as usize)?;
        let bytes = &rd.s[p..p + n as usize];
        match utf8_scalars(bytes) {
            Some(1) => Ok(char::from_u32(utf8_first_scalar(bytes)).unwrap()),
            _ => Err(K::BadChar),
        }
    }
    fn same(&self, o: &Self) -> bool {
        self == o
    }
}
impl<'a> SpecDe<'a> for &'a str {
    fn spec(rd: &mut Rd<'a>) -> Result<Self, K> {
        let (p, n) = rd.len_prefixed()?;
        let s: &'a [u8] = rd.s;
        let bytes = &s[p..p + n];
        match utf8_scalars(bytes) {
            Some(_) => Ok(unsafe { core::str::from_utf8_unchecked(bytes) }),
            None => Err(K::BadUtf8),
        }
    }
    fn same(&self, o: &Self) -> bool {
        self.as_ptr() == o.as_ptr() && self.len() == o.len()
    }
}
/// byte array
#[derive(Deserialize)]
pub struct Bytes<'a>(#[serde(with = "crate::types::bytes_as_bytes")] pub &'a [u8]);
impl<'a> SpecDe<'a> for Bytes<'a> {
    fn spec(rd: &mut Rd<'a>) -> Result<Self, K> {
        let (p, n) = rd.len_prefixed()?;
        let s: &'a [u8] = rd.s;
        Ok(Bytes(&s[p..p + n]))
    }
    fn same(&self, o: &Self) -> bool {
        self.0.as_ptr() == o.0.as_ptr() && self.0.len() == o.0.len()
    }
}
impl<'a, T: SpecDe<'a>> SpecDe<'a> for Option<T> {
    fn spec(rd: &mut Rd<'a>) -> Result<Self, K> {
        if rd.option_tag()? {
            Ok(Some(T::spec(rd)?))
        } else {
            Ok(None)
        }
    }
    fn same(&self, o: &Self) -> bool {
        match (self, o) {
            (None, None) => true,
            (Some(a), Some(b)) => a.same(b),
            _ => false,
        }
    }
}
impl<'a> SpecDe<'a> for () {
    fn spec(_rd: &mut Rd<'a>) -> Result<Self, K> {
        Ok(())
    }
    fn same(&self, _o: &Self) -> bool {
        true
    }
}
impl<'a> SpecDe<'a> for Unit {
    fn spec(_rd: &mut Rd<'a>) -> Result<Self, K> {
        Ok(Unit)
    }
    fn same(&self, _o: &Self) -> bool {
        true
    }
}
impl<'a> SpecDe<'a> for New {
    fn spec(rd: &mut Rd<'a>) -> Result<Self, K> {
        Ok(New(u32::spec(rd)?))
    }
    fn same(&self, o: &Self) -> bool {
        self == o
    }
}
impl<'a> SpecDe<'a> for Tup {
    fn spec(rd: &mut Rd<'a>) -> Result<Self, K> {
        Ok(Tup(u8::spec(rd)?, i16::spec(rd)?))
    }
    fn same(&self, o: &Self) -> bool {
        self == o
    }
}
impl<'a> SpecDe<'a> for Named {
    fn spec(rd: &mut Rd<'a>) -> Result<Self, K> {
        let a = u16::spec(rd)?;
        let b = <Option<i32>>::spec(rd)?;
        Ok(Named { a, b })
    }
    fn same(&self, o: &Self) -> bool {
        self == o
    }
}
impl<'a> SpecDe<'a> for E4 {
    fn spec(rd: &mut Rd<'a>) -> Result<Self, K> {
        // tagged union: varint(u32) discriminant, then the variant's payload
        match rd.varint(32)? {
            0 => Ok(E4::A),
            1 => Ok(E4::B(u16::spec(rd)?)),
            2 => Ok(E4::C(u8::spec(rd)?, i32::spec(rd)?)),
            3 => {
                let x = i64::spec(rd)?;
                let y = bool::spec(rd)?;
                Ok(E4::D { x, y })
            }
            _ => Err(K::Other),
        }
    }
    fn same(&self, o: &Self) -> bool {
        self == o
    }
}
impl<'a> SpecDe<'a> for Nest {
    fn spec(rd: &mut Rd<'a>) -> Result<Self, K> {
        let a = <Option<E4>>::spec(rd)?;
        let b = u8::spec(rd)?;
        let c = New::spec(rd)?;
        Ok(Nest(a, (b, c)))
    }
    fn same(&self, o: &Self) -> bool {
        self == o
    }
}
impl<'a> SpecDe<'a> for Result<u8, i16> {
    fn spec(rd: &mut Rd<'a>) -> Result<Self, K> {
        match rd.varint(32)? {
            0 => Ok(Ok(u8::spec(rd)?)),
            1 => Ok(Err(i16::spec(rd)?)),
            _ => Err(K::Other),
        }
    }
    fn same(&self, o: &Self) -> bool {
        self == o
    }
}
impl<'a> SpecDe<'a> for [u16; 3] {
    fn spec(rd: &mut Rd<'a>) -> Result<Self, K> {
        Ok([u16::spec(rd)?, u16::spec(rd)?, u16::spec(rd)?])
    }
    fn same(&self, o: &Self) -> bool {
        self == o
    }
}
impl<'a> SpecDe<'a> for (u8, i16) {
    fn spec(rd: &mut Rd<'a>) -> Result<Self, K> {
        Ok((u8::spec(rd)?, i16::spec(rd)?))
    }
    fn same(&self, o: &Self) -> bool {
        self == o
    }
}
impl<'a> SpecDe<'a> for heapless::Vec<u16, 3> {
    fn spec(rd: &mut Rd<'a>) -> Result<Self, K> {
        let n = rd.varint(64)?;
        let mut out = heapless::Vec::new();
        let mut i: u128 = 0;
        while i < n {
            let e = u16::spec(rd)?;
            if out.push(e).is_err() {
                // more elements than the container holds: an error the spec does not name
                return Err(K::Other);
            }
            i += 1;
        }
        Ok(out)
    }
    fn same(&self, o: &Self) -> bool {
        self == o
    }
}
impl<'a> SpecDe<'a> for Borrowing<'a> {
    fn spec(rd: &mut Rd<'a>) -> Result<Self, K> {
        let id = u16::spec(rd)?;
        let s = <&'a str>::spec(rd)?;
        let b = Bytes::spec(rd)?.0;
        let f = <Option<bool>>::spec(rd)?;
        Ok(Borrowing { id, s, b, f })
    }
    fn same(&self, o: &Self) -> bool {
        self.id == o.id && self.s.same(&o.s) && self.b.as_ptr() == o.b.as_ptr() && self.b.len() == o.b.len() && self.f == o.f
    }
}
impl<'a> SpecDe<'a> for PairMap<2> {
    fn spec(rd: &mut Rd<'a>) -> Result<Self, K> {
        let n = rd.varint(64)?;
        let mut out = PairMap::<2> { len: 0, kv: [(0, 0); 2] };
        let mut i: u128 = 0;
        while i < n {
            let k = u8::spec(rd)?;
            let v = u16::spec(rd)?;
            if out.len >= 2 {
                return Err(K::Other);
            }
            out.kv[out.len] = (k, v);
            out.len += 1;
            i += 1;
        }
        Ok(out)
    }
    fn same(&self, o: &Self) -> bool {
        self == o
    }
}

/// The comparison every C03 harness performs.
pub fn agree<'a, T: SpecDe<'a> + Deserialize<'a>>(s: &'a [u8]) -> bool {
    let real = postcard::take_from_bytes::<T>(s);
    let mut rd = Rd::new(s);
    let spec = T::spec(&mut rd);
    match (real, spec) {
        (Ok((v, rest)), Ok(sv)) => {
            assert!(v.same(&sv), "decoded value differs from the specification's");
            assert!(rest.len() == s.len() - rd.pos, "consumed length differs");
            assert!(rest.as_ptr() == unsafe { s.as_ptr().add(rd.pos) }, "remainder does not start right after the message");
            true
        }
        (Err(e), Err(k)) => {
            if k != K::Other {
                assert!(kind_of(&e) == k, "error kind differs from the first violated rule");
            }
            false
        }
        (Ok(_), Err(_)) => {
            assert!(false, "decoder accepts an input the specification rejects");
            false
        }
        (Err(_), Ok(_)) => {
            assert!(false, "decoder rejects an input the specification permits");
            false
        }
    }
}

macro_rules! accept_exactly {
    ($name:ident, $ty:ty, $len:literal, $unwind:literal) => {
        #[kani::proof]
        #[kani::unwind($unwind)]
        fn $name() {
            let a: [u8; $len] = kani::any();
            let n: usize = kani::any();
            kani::assume(n <= $len);
            let ok = agree::<$ty>(&a[..n]);
            kani::cover!(ok, "an accepted input exists");
            kani::cover!(!ok && n == $len, "a rejected full-length input exists");
        }
    };
}

/// types for which every sufficiently long input is accepted (no rejection witness exists)
macro_rules! accept_total {
    ($name:ident, $ty:ty, $len:literal, $unwind:literal) => {
        #[kani::proof]
        #[kani::unwind($unwind)]
        fn $name() {
            let a: [u8; $len] = kani::any();
            let n: usize = kani::any();
            kani::assume(n <= $len);
            let ok = agree::<$ty>(&a[..n]);
            kani::cover!(ok && n == $len, "an accepted full-length input exists");
            kani::cover!(!ok, "a rejected (truncated) input exists");
        }
    };
}

//@ tier=quick class=core cap=180 bounds="every byte string of length 0..=5 (covers over-long, over-range, padded u16 varints)"
accept_exactly!(c03_dec_u16, u16, 5, 8);
//@ tier=quick class=core cap=180 bounds="every byte string of length 0..=5"
accept_exactly!(c03_dec_i16, i16, 5, 8);
//@ tier=quick class=core cap=240 bounds="every byte string of length 0..=7"
accept_exactly!(c03_dec_u32, u32, 7, 10);
//@ tier=quick class=core cap=240 bounds="every byte string of length 0..=7"
accept_exactly!(c03_dec_i32, i32, 7, 10);
//@ tier=quick class=core cap=400 bounds="every byte string of length 0..=12"
accept_exactly!(c03_dec_u64, u64, 12, 15);
//@ tier=quick class=core cap=400 bounds="every byte string of length 0..=12"
accept_exactly!(c03_dec_i64, i64, 12, 15);
//@ tier=quick class=core cap=900 bounds="every byte string of length 0..=21"
accept_exactly!(c03_dec_u128, u128, 21, 24);
//@ tier=thorough class=core cap=900 bounds="every byte string of length 0..=21"
accept_exactly!(c03_dec_i128, i128, 21, 24);
//@ tier=thorough class=core cap=400 bounds="every byte string of length 0..=12 (64-bit host)"
accept_exactly!(c03_dec_usize, usize, 12, 15);
//@ tier=thorough class=core cap=400 bounds="every byte string of length 0..=12 (64-bit host)"
accept_exactly!(c03_dec_isize, isize, 12, 15);
//@ tier=quick class=core cap=120 bounds="every byte string of length 0..=3"
accept_exactly!(c03_dec_bool, bool, 3, 6);
//@ tier=quick class=core cap=120 bounds="every byte string of length 0..=3"
accept_total!(c03_dec_u8, u8, 3, 6);
//@ tier=thorough class=core cap=120 bounds="every byte string of length 0..=3"
accept_total!(c03_dec_i8, i8, 3, 6);
//@ tier=thorough class=core cap=180 bounds="every byte string of length 0..=6"
accept_total!(c03_dec_f32, f32, 6, 9);
//@ tier=thorough class=core cap=180 bounds="every byte string of length 0..=10"
accept_total!(c03_dec_f64, f64, 10, 13);
//@ tier=quick class=core cap=300 bounds="every byte string of length 0..=4 as Option<u8> / Option<bool> tags"
accept_exactly!(c03_dec_option, Option<bool>, 4, 7);
//@ tier=quick class=core cap=900 bounds="every byte string of length 0..=6 as char (length<=4, UTF-8, exactly one scalar)" family=char
accept_exactly!(c03_dec_char, char, 6, 9);
//@ tier=thorough class=core cap=1800 bounds="every byte string of length 0..=6 as &str (own Table 3-7 validator vs core::str)"
accept_exactly!(c03_dec_str, &str, 6, 9);
//@ tier=quick class=core cap=600 bounds="every byte string of length 0..=4 as &str"
accept_exactly!(c03_dec_str4, &str, 4, 7);
//@ tier=quick class=core cap=300 bounds="every byte string of length 0..=6 as a byte array"
accept_exactly!(c03_dec_bytes, Bytes, 6, 9);
#[kani::proof]
#[kani::unwind(5)]
//@ tier=thorough class=core cap=120 bounds="every byte string of length 0..=2 as () and unit struct"
fn c03_dec_unit() {
    let a: [u8; 2] = kani::any();
    let n: usize = kani::any();
    kani::assume(n <= 2);
    // zero bytes on the wire: every input is accepted, nothing is consumed
    assert!(agree::<Unit>(&a[..n]));
    assert!(agree::<()>(&a[..n]));
    kani::cover!(n == 2, "reached");
}
//@ tier=thorough class=core cap=300 bounds="every byte string of length 0..=6"
accept_exactly!(c03_dec_newtype, New, 6, 9);
//@ tier=thorough class=core cap=300 bounds="every byte string of length 0..=6"
accept_exactly!(c03_dec_tuple_struct, Tup, 6, 9);
//@ tier=quick class=core cap=600 bounds="every byte string of length 0..=8 as Named{a:u16,b:Option<i32>}"
accept_exactly!(c03_dec_named, Named, 8, 11);
//@ tier=quick class=core cap=900 bounds="every byte string of length 0..=8 as E4 (unknown variant index -> some error)"
accept_exactly!(c03_dec_enum4, E4, 8, 11);
//@ tier=thorough class=core cap=1800 bounds="every byte string of length 0..=8 as Nest"
accept_exactly!(c03_dec_nest, Nest, 8, 11);
//@ tier=thorough class=core cap=600 bounds="every byte string of length 0..=6 as Result<u8,i16>"
accept_exactly!(c03_dec_result, Result<u8, i16>, 6, 9);
//@ tier=thorough class=core cap=600 bounds="every byte string of length 0..=8 as [u16;3]"
accept_exactly!(c03_dec_array, [u16; 3], 8, 11);
//@ tier=thorough class=core cap=900 bounds="every byte string of length 0..=6 as heapless::Vec<u16,3> (container overflow -> some error)"
accept_exactly!(c03_dec_hvec, heapless::Vec<u16, 3>, 6, 9);
//@ tier=thorough class=core cap=900 bounds="every byte string of length 0..=6 as PairMap<2> through deserialize_map"
accept_exactly!(c03_dec_map, PairMap<2>, 6, 9);
//@ tier=thorough class=core cap=1800 bounds="every byte string of length 0..=7 as Borrowing{u16,&str,&[u8],Option<bool>}"
accept_exactly!(c03_dec_borrowing, Borrowing, 7, 10);

// ------------------------------------------------------------------------------------------
// every strict prefix of a valid message fails with unexpected-end
// ------------------------------------------------------------------------------------------
macro_rules! prefixes_fail {
    ($name:ident, $ty:ty, $cap:literal, $unwind:literal) => {
        #[kani::proof]
        #[kani::unwind($unwind)]
        fn $name() {
            let v: $ty = kani::any();
            let mut buf = [0u8; $cap];
            let n = postcard::to_slice(&v, &mut buf).unwrap().len();
            let k: usize = kani::any();
            kani::assume(k < n);
            let r: Result<$ty, postcard::Error> = postcard::from_bytes(&buf[..k]);
            assert!(matches!(r, Err(postcard::Error::DeserializeUnexpectedEnd)));
            kani::cover!(k + 1 == $cap, "longest strict prefix reachable");
        }
    };
}
//@ tier=quick class=core cap=240 bounds="all u32 values x every strict prefix"
prefixes_fail!(c03_prefix_u32, u32, 5, 8);
//@ tier=quick class=core cap=400 bounds="all i64 values x every strict prefix"
prefixes_fail!(c03_prefix_i64, i64, 10, 13);
//@ tier=quick class=core cap=600 bounds="all Named values x every strict prefix"
prefixes_fail!(c03_prefix_named, Named, 9, 12);
//@ tier=thorough class=core cap=900 bounds="all E4 values x every strict prefix"
prefixes_fail!(c03_prefix_enum4, E4, 12, 15);
//@ tier=thorough class=core cap=1800 bounds="all Nest values x every strict prefix"
prefixes_fail!(c03_prefix_nest, Nest, 19, 22);
//@ tier=thorough class=core cap=600 bounds="all u128 values x every strict prefix"
prefixes_fail!(c03_prefix_u128, u128, 19, 22);

#[kani::proof]
#[kani::unwind(8)]
//@ tier=thorough class=core cap=900 bounds="every &str of 0..=4 bytes x every strict prefix"
fn c03_prefix_str() {
    let mut store = [0u8; 4];
    let s = crate::c01::any_str(&mut store);
    let mut buf = [0u8; 5];
    let n = postcard::to_slice(s, &mut buf).unwrap().len();
    let k: usize = kani::any();
    kani::assume(k < n);
    let r: Result<&str, postcard::Error> = postcard::from_bytes(&buf[..k]);
    assert!(matches!(r, Err(postcard::Error::DeserializeUnexpectedEnd)));
    kani::cover!(k == 4, "longest strict prefix reachable");
}
