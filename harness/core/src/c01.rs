//! C01 — round trip is the identity.
use crate::types::*;

macro_rules! rt_value {
    ($name:ident, $ty:ty, $cap:literal, $unwind:literal) => {
        #[kani::proof]
        #[kani::unwind($unwind)]
        fn $name() {
            let v: $ty = kani::any();
            let mut buf = [0u8; $cap + 2];
            let n = postcard::to_slice(&v, &mut buf[..$cap]).unwrap().len();
            // symbolic tail of 0..=2 bytes
            let t0: u8 = kani::any();
            let t1: u8 = kani::any();
            let tl: usize = kani::any();
            kani::assume(tl <= 2);
            buf[n] = t0;
            buf[n + 1] = t1;
            let input = &buf[..n + tl];
            let (back, rest): ($ty, &[u8]) = postcard::take_from_bytes(input).unwrap();
            assert!(back == v);
            assert!(rest.len() == tl);
            assert!(rest.as_ptr() == unsafe { input.as_ptr().add(n) });
            let only: $ty = postcard::from_bytes(input).unwrap();
            assert!(only == v);
            kani::cover!(n == $cap, "maximum-length encoding reachable");
        }
    };
}

//@ tier=quick class=core cap=120 bounds="all 2^16 values, tail 0..=2 symbolic bytes"
rt_value!(c01_rt_u16, u16, 3, 6);
//@ tier=quick class=core cap=120 bounds="all 2^16 values, tail 0..=2 symbolic bytes"
rt_value!(c01_rt_i16, i16, 3, 6);
