//! C01 — decode(encode(v)) == v, exact consumption, remainder handed back; all entry points.
//!
//! Shape of every harness: v symbolic over the WHOLE type, encode into a buffer, append a symbolic
//! tail of 0..=2 bytes, decode with take_from_bytes / from_bytes, compare value, remainder length
//! and remainder pointer.  `cap` is the maximum encoded length of the type (cover! witnesses that it
//! is reached, so the harness is not vacuous and the bound is tight).
use crate::types::*;
use serde::{Deserialize, Serialize};

pub fn roundtrip_with_tail<'a, T, const BUF: usize>(
    v: &T,
    buf: &'a mut [u8; BUF],
    cap: usize,
    same: impl Fn(&T, &T) -> bool,
) -> usize
where
    T: Serialize + Deserialize<'a>,
{
    let n = postcard::to_slice(v, &mut buf[..cap]).unwrap().len();
    let t0: u8 = kani::any();
    let t1: u8 = kani::any();
    let tl: usize = kani::any();
    kani::assume(tl <= 2);
    buf[n] = t0;
    buf[n + 1] = t1;
    let shared: &'a [u8; BUF] = buf;
    let input: &'a [u8] = &shared[..n + tl];
    let (back, rest): (T, &[u8]) = postcard::take_from_bytes(input).unwrap();
    assert!(same(&back, v));
    assert!(rest.len() == tl);
    assert!(rest.as_ptr() == unsafe { input.as_ptr().add(n) });
    if tl > 0 {
        assert!(rest[0] == t0);
    }
    let only: T = postcard::from_bytes(input).unwrap();
    assert!(same(&only, v));
    n
}

macro_rules! rt_eq {
    ($name:ident, $ty:ty, $cap:literal, $unwind:literal) => {
        #[kani::proof]
        #[kani::unwind($unwind)]
        fn $name() {
            let v: $ty = kani::any();
            let mut buf = [0u8; $cap + 2];
            let n = roundtrip_with_tail(&v, &mut buf, $cap, |a, b| a == b);
            kani::cover!(n == $cap, "maximum-length encoding reachable");
        }
    };
}

//@ tier=quick class=core cap=120 bounds="all values; tail 0..=2 symbolic bytes"
rt_eq!(c01_rt_bool, bool, 1, 4);
//@ tier=quick class=core cap=120 bounds="all values; tail 0..=2 symbolic bytes"
rt_eq!(c01_rt_u8, u8, 1, 4);
//@ tier=quick class=core cap=120 bounds="all values; tail 0..=2 symbolic bytes"
rt_eq!(c01_rt_i8, i8, 1, 4);
//@ tier=quick class=core cap=120 bounds="all 2^16 values; tail 0..=2 symbolic bytes"
rt_eq!(c01_rt_u16, u16, 3, 6);
//@ tier=quick class=core cap=120 bounds="all 2^16 values; tail 0..=2 symbolic bytes"
rt_eq!(c01_rt_i16, i16, 3, 6);
//@ tier=quick class=core cap=120 bounds="all 2^32 values; tail 0..=2"
rt_eq!(c01_rt_u32, u32, 5, 8);
//@ tier=quick class=core cap=120 bounds="all 2^32 values; tail 0..=2"
rt_eq!(c01_rt_i32, i32, 5, 8);
//@ tier=quick class=core cap=180 bounds="all 2^64 values; tail 0..=2"
rt_eq!(c01_rt_u64, u64, 10, 13);
//@ tier=quick class=core cap=180 bounds="all 2^64 values; tail 0..=2"
rt_eq!(c01_rt_i64, i64, 10, 13);
//@ tier=quick class=core cap=300 bounds="all 2^128 values; tail 0..=2"
rt_eq!(c01_rt_u128, u128, 19, 22);
//@ tier=quick class=core cap=300 bounds="all 2^128 values; tail 0..=2"
rt_eq!(c01_rt_i128, i128, 19, 22);
//@ tier=thorough class=core cap=180 bounds="all 2^64 values (64-bit host); tail 0..=2"
rt_eq!(c01_rt_usize, usize, 10, 13);
//@ tier=thorough class=core cap=180 bounds="all 2^64 values (64-bit host); tail 0..=2"
rt_eq!(c01_rt_isize, isize, 10, 13);
//@ tier=thorough class=core cap=900 bounds="every char (all scalar values); tail 0..=2"
rt_eq!(c01_rt_char, char, 5, 8);

#[kani::proof]
#[kani::unwind(6)]
//@ tier=quick class=core cap=300 bounds="every char below U+0800 (1- and 2-byte UTF-8); tail 0..=2; the full range is c01_rt_char (thorough)"
fn c01_rt_char_2byte() {
    let v: char = kani::any();
    kani::assume((v as u32) < 0x800);
    let mut buf = [0u8; 5];
    let n = roundtrip_with_tail(&v, &mut buf, 3, |a, b| a == b);
    kani::cover!(n == 3, "2-byte scalar reachable");
}
//@ tier=thorough class=core cap=120 bounds="unit struct; tail 0..=2"
rt_eq!(c01_rt_unit_struct, Unit, 0, 4);
//@ tier=thorough class=core cap=120 bounds="all values of New(u32)"
rt_eq!(c01_rt_newtype, New, 5, 8);
//@ tier=thorough class=core cap=180 bounds="all values of Tup(u8,i16)"
rt_eq!(c01_rt_tuple_struct, Tup, 4, 7);
//@ tier=quick class=core cap=300 bounds="all values of Named{a:u16,b:Option<i32>}"
rt_eq!(c01_rt_named, Named, 9, 12);
//@ tier=quick class=core cap=400 bounds="all values of E4{A,B(u16),C(u8,i32),D{x:i64,y:bool}} (unit/newtype/tuple/struct variants)"
rt_eq!(c01_rt_enum4, E4, 12, 15);
//@ tier=thorough class=core cap=900 bounds="all values of Nest(Option<E4>,(u8,New)) - nesting depth 3"
rt_eq!(c01_rt_nest, Nest, 19, 22);
//@ tier=thorough class=core cap=300 bounds="all values of Result<u8,i16>"
rt_eq!(c01_rt_result, Result<u8, i16>, 4, 7);
//@ tier=thorough class=core cap=300 bounds="all values of [u16;3]"
rt_eq!(c01_rt_array, [u16; 3], 9, 12);
//@ tier=thorough class=core cap=300 bounds="all values of Option<Option<u8>>"
rt_eq!(c01_rt_optopt, Option<Option<u8>>, 3, 6);
//@ tier=thorough class=core cap=300 bounds="all values of (u8,)"
rt_eq!(c01_rt_tuple1, (u8,), 1, 4);
//@ tier=thorough class=core cap=600 bounds="all values of (u8,u16,u32,i8,i16)"
rt_eq!(c01_rt_tuple5, (u8, u16, u32, i8, i16), 13, 16);

#[kani::proof]
#[kani::unwind(4)]
//@ tier=thorough class=core cap=120 bounds="the unit value; tail 0..=2"
fn c01_rt_unit() {
    let mut buf = [0u8; 2];
    let n = roundtrip_with_tail(&(), &mut buf, 0, |_, _| true);
    assert!(n == 0);
    kani::cover!(true, "reached");
}

#[kani::proof]
#[kani::unwind(8)]
//@ tier=quick class=core cap=180 bounds="all 2^32 bit patterns incl. every NaN payload, +-0, inf, subnormals; compared by to_bits"
fn c01_rt_f32() {
    let v = f32::from_bits(kani::any());
    let mut buf = [0u8; 6];
    let n = roundtrip_with_tail(&v, &mut buf, 4, |a, b| a.to_bits() == b.to_bits());
    assert!(n == 4);
    kani::cover!(v.is_nan(), "NaN reachable");
}

#[kani::proof]
#[kani::unwind(12)]
//@ tier=quick class=core cap=180 bounds="all 2^64 bit patterns; compared by to_bits"
fn c01_rt_f64() {
    let v = f64::from_bits(kani::any());
    let mut buf = [0u8; 10];
    let n = roundtrip_with_tail(&v, &mut buf, 8, |a, b| a.to_bits() == b.to_bits());
    assert!(n == 8);
    kani::cover!(v.is_nan(), "NaN reachable");
}

/// symbolic &str of 0..=MAXB bytes (every well-formed UTF-8 string of that length)
pub fn any_str<const MAXB: usize>(store: &mut [u8; MAXB]) -> &str {
    *store = kani::any();
    let len: usize = kani::any();
    kani::assume(len <= MAXB);
    let r = core::str::from_utf8(&store[..len]);
    kani::assume(r.is_ok());
    r.unwrap()
}

pub fn any_bytes<const MAXB: usize>(store: &mut [u8; MAXB]) -> &[u8] {
    *store = kani::any();
    let len: usize = kani::any();
    kani::assume(len <= MAXB);
    &store[..len]
}

#[kani::proof]
#[kani::unwind(8)]
//@ tier=thorough class=core cap=1200 bounds="every well-formed UTF-8 &str of 0..=4 bytes (incl. multi-byte); tail 0..=2"
fn c01_rt_str() {
    let mut store = [0u8; 4];
    let s = any_str(&mut store);
    let mut buf = [0u8; 7];
    let n = roundtrip_with_tail(&s, &mut buf, 5, |a, b| a.len() == b.len() && a.as_bytes() == b.as_bytes());
    kani::cover!(n == 5 && s.as_bytes()[0] >= 0xF0, "4-byte scalar reachable");
}

#[kani::proof]
#[kani::unwind(6)]
//@ tier=quick class=core cap=300 bounds="every well-formed UTF-8 &str of 0..=2 bytes (incl. 2-byte scalars); tail 0..=2"
fn c01_rt_str2() {
    let mut store = [0u8; 2];
    let s = any_str(&mut store);
    let mut buf = [0u8; 5];
    let n = roundtrip_with_tail(&s, &mut buf, 3, |a, b| a.len() == b.len() && a.as_bytes() == b.as_bytes());
    kani::cover!(n == 3 && s.as_bytes()[0] >= 0xC2, "2-byte scalar reachable");
}

#[kani::proof]
#[kani::unwind(8)]
//@ tier=quick class=core cap=300 bounds="every &[u8] of 0..=4 bytes (serialize_bytes / deserialize_bytes); tail 0..=2"
fn c01_rt_bytes() {
    #[derive(Serialize, Deserialize)]
    struct B<'a>(#[serde(with = "crate::types::bytes_as_bytes")] &'a [u8]);
    let mut store = [0u8; 4];
    let s = any_bytes(&mut store);
    let v = B(s);
    let mut buf = [0u8; 7];
    let n = roundtrip_with_tail(&v, &mut buf, 5, |a, b| a.0 == b.0);
    kani::cover!(n == 5, "full length reachable");
}

#[kani::proof]
#[kani::unwind(8)]
//@ tier=thorough class=core cap=600 bounds="every heapless::Vec<u16,3> (len 0..=3, all element values)"
fn c01_rt_hvec() {
    let mut v: heapless::Vec<u16, 3> = heapless::Vec::new();
    let len: usize = kani::any();
    kani::assume(len <= 3);
    let mut i = 0;
    while i < len {
        v.push(kani::any()).unwrap();
        i += 1;
    }
    let mut buf = [0u8; 12];
    let n = roundtrip_with_tail(&v, &mut buf, 10, |a, b| a == b);
    kani::cover!(n == 10, "full length reachable");
}

#[kani::proof]
#[kani::unwind(8)]
//@ tier=thorough class=core cap=900 bounds="every heapless::String<4> (0..=4 bytes of well-formed UTF-8)"
fn c01_rt_hstring() {
    let mut store = [0u8; 4];
    let s = any_str(&mut store);
    let mut v: heapless::String<4> = heapless::String::new();
    v.push_str(s).unwrap();
    let mut buf = [0u8; 7];
    let n = roundtrip_with_tail(&v, &mut buf, 5, |a, b| a.as_bytes() == b.as_bytes());
    kani::cover!(n == 5, "full length reachable");
}

#[kani::proof]
#[kani::unwind(7)]
//@ tier=thorough class=core cap=900 bounds="every Vec<u16> of len 0..=3 (heap; result forgotten, not dropped)"
fn c01_rt_vec() {
    let len: usize = kani::any();
    kani::assume(len <= 3);
    let mut v: Vec<u16> = Vec::with_capacity(3);
    let mut i = 0;
    while i < len {
        v.push(kani::any());
        i += 1;
    }
    let mut buf = [0u8; 12];
    let n = postcard::to_slice(&v, &mut buf[..10]).unwrap().len();
    let tl: usize = kani::any();
    kani::assume(tl <= 2);
    let input = &buf[..n + tl];
    let (back, rest): (Vec<u16>, &[u8]) = postcard::take_from_bytes(input).unwrap();
    assert!(back.len() == v.len());
    let mut i = 0;
    while i < len {
        assert!(back[i] == v[i]);
        i += 1;
    }
    assert!(rest.len() == tl);
    kani::cover!(n == 10, "full length reachable");
    core::mem::forget(back);
    core::mem::forget(v);
}

#[kani::proof]
#[kani::unwind(7)]
//@ tier=thorough class=core cap=900 bounds="every String of 0..=3 bytes (heap)"
fn c01_rt_string() {
    let mut store = [0u8; 3];
    let s = any_str(&mut store);
    let v = String::from(s);
    let mut buf = [0u8; 6];
    let n = postcard::to_slice(&v, &mut buf[..4]).unwrap().len();
    let tl: usize = kani::any();
    kani::assume(tl <= 2);
    let input = &buf[..n + tl];
    let (back, rest): (String, &[u8]) = postcard::take_from_bytes(input).unwrap();
    assert!(back.as_bytes() == v.as_bytes());
    assert!(rest.len() == tl);
    kani::cover!(n == 4, "full length reachable");
    core::mem::forget(back);
    core::mem::forget(v);
}

#[kani::proof]
#[kani::unwind(6)]
//@ tier=thorough class=core cap=900 bounds="every PairMap<2> (serialize_map/deserialize_map; 0..=2 entries, all key/value values)"
fn c01_rt_map() {
    let len: usize = kani::any();
    kani::assume(len <= 2);
    let mut m = PairMap::<2> { len, kv: [(0, 0); 2] };
    let mut i = 0;
    while i < len {
        m.kv[i] = (kani::any(), kani::any());
        i += 1;
    }
    let mut buf = [0u8; 11];
    let n = roundtrip_with_tail(&m, &mut buf, 9, |a, b| a == b);
    kani::cover!(n == 9, "full length reachable");
}

// ------------------------------------------------------------------------------------------
// entry-point matrix: 5 encoders x 3 decoders.  Split in two harness families (encoders all
// byte-identical to to_slice; decoders all return v from those bytes) so that each query stays small:
// identical bytes + every decoder correct on those bytes == every pairing round-trips.
// ------------------------------------------------------------------------------------------

macro_rules! enc_matrix {
    ($name:ident, $ty:ty, $cap:literal, $unwind:literal, $mk:expr) => {
        #[kani::proof]
        #[kani::unwind($unwind)]
        fn $name() {
            let mut store = [0u8; 4];
            let v: $ty = ($mk)(&mut store);
            let mut b0 = [0u8; $cap];
            let reference: &[u8] = postcard::to_slice(&v, &mut b0).unwrap();
            let n = reference.len();
            // fixed-capacity vector
            let hv: heapless::Vec<u8, $cap> = postcard::to_vec(&v).unwrap();
            assert!(hv.len() == n);
            let mut i = 0;
            while i < n {
                assert!(hv[i] == reference[i]);
                i += 1;
            }
            // Extend sink
            let ev: heapless::Vec<u8, $cap> = postcard::to_extend(&v, heapless::Vec::<u8, $cap>::new()).unwrap();
            assert!(ev.len() == n);
            let mut i = 0;
            while i < n {
                assert!(ev[i] == reference[i]);
                i += 1;
            }
            // byte writer (std::io::Write for &mut [u8])
            let mut b1 = [0u8; $cap];
            let left = postcard::to_io(&v, &mut b1[..]).unwrap().len();
            assert!($cap - left == n);
            let mut i = 0;
            while i < n {
                assert!(b1[i] == reference[i]);
                i += 1;
            }
            // growable vector
            let av = postcard::to_allocvec(&v).unwrap();
            assert!(av.len() == n);
            let mut i = 0;
            while i < n {
                assert!(av[i] == reference[i]);
                i += 1;
            }
            core::mem::forget(av);
            kani::cover!(n == $cap, "maximum-length encoding reachable");
        }
    };
}

macro_rules! dec_matrix {
    ($name:ident, $ty:ty, $cap:literal, $unwind:literal, $mk:expr, $same:expr) => {
        #[kani::proof]
        #[kani::unwind($unwind)]
        fn $name() {
            let mut store = [0u8; 4];
            let v: $ty = ($mk)(&mut store);
            let same = $same;
            let mut b0 = [0u8; $cap];
            let reference: &[u8] = postcard::to_slice(&v, &mut b0).unwrap();
            let n = reference.len();
            let d1: $ty = postcard::from_bytes(reference).unwrap();
            assert!(same(&d1, &v));
            let (d2, rest): ($ty, &[u8]) = postcard::take_from_bytes(reference).unwrap();
            assert!(same(&d2, &v) && rest.len() == 0);
            let mut scratch = [0u8; 8];
            let (d3, (rd, _scr)): ($ty, (&[u8], &mut [u8])) = postcard::from_io((reference, &mut scratch[..])).unwrap();
            assert!(same(&d3, &v));
            assert!(rd.len() == 0);
            kani::cover!(n == $cap, "maximum-length encoding reachable");
        }
    };
}

//@ tier=quick class=core cap=600 bounds="all u64 values; to_slice/to_vec/to_extend/to_io/to_allocvec byte-identical"
enc_matrix!(c01_enc_matrix_u64, u64, 10, 13, |_s: &mut [u8; 4]| kani::any::<u64>());
//@ tier=quick class=core cap=600 bounds="all u64 values; from_bytes/take_from_bytes/from_io all return v"
dec_matrix!(c01_dec_matrix_u64, u64, 10, 13, |_s: &mut [u8; 4]| kani::any::<u64>(), |a: &u64, b: &u64| a == b);
//@ tier=thorough class=core cap=900 bounds="all Named values; 5 encoders byte-identical"
enc_matrix!(c01_enc_matrix_named, Named, 9, 12, |_s: &mut [u8; 4]| kani::any::<Named>());
//@ tier=thorough class=core cap=900 bounds="all Named values; 3 decoders"
dec_matrix!(c01_dec_matrix_named, Named, 9, 12, |_s: &mut [u8; 4]| kani::any::<Named>(), |a: &Named, b: &Named| a == b);
//@ tier=thorough class=core cap=1800 bounds="all Nest values; 5 encoders byte-identical"
enc_matrix!(c01_enc_matrix_nest, Nest, 19, 22, |_s: &mut [u8; 4]| kani::any::<Nest>());
//@ tier=thorough class=core cap=1800 bounds="all Nest values; 3 decoders"
dec_matrix!(c01_dec_matrix_nest, Nest, 19, 22, |_s: &mut [u8; 4]| kani::any::<Nest>(), |a: &Nest, b: &Nest| a == b);
//@ tier=thorough class=core cap=1200 bounds="every &str of 0..=4 bytes; 5 encoders byte-identical"
enc_matrix!(c01_enc_matrix_str, &str, 5, 8, |s: &mut [u8; 4]| -> &str { let r: &str = any_str(s); unsafe { core::mem::transmute::<&str, &'static str>(r) } });
//@ tier=thorough class=core cap=1500 bounds="every &str of 0..=4 bytes; from_bytes/take_from_bytes (borrowing input) and from_io (borrowing scratch)"
dec_matrix!(c01_dec_matrix_str, &str, 5, 8, |s: &mut [u8; 4]| -> &str { let r: &str = any_str(s); unsafe { core::mem::transmute::<&str, &'static str>(r) } }, |a: &&str, b: &&str| a.as_bytes() == b.as_bytes());

#[kani::proof]
#[kani::unwind(8)]
//@ tier=quick class=core cap=900 bounds="every &[u8] of 0..=3 bytes and every f32 through from_io with a scratch buffer of EXACTLY the needed size (and one byte more)"
fn c01_io_exact_scratch() {
    #[derive(Serialize, Deserialize)]
    struct B<'a>(#[serde(with = "crate::types::bytes_as_bytes")] &'a [u8], f32);
    let mut store = [0u8; 3];
    let s = any_bytes(&mut store);
    let v = B(s, f32::from_bits(kani::any()));
    let mut buf = [0u8; 8];
    let n = postcard::to_slice(&v, &mut buf).unwrap().len();
    let need = s.len() + 4;
    let extra: usize = kani::any();
    kani::assume(extra <= 1);
    let mut scratch = [0u8; 8];
    let (back, (rd, unused)): (B, (&[u8], &mut [u8])) = postcard::from_io((&buf[..n], &mut scratch[..need + extra])).unwrap();
    assert!(back.0 == v.0 && back.1.to_bits() == v.1.to_bits());
    assert!(rd.len() == 0 && unused.len() == extra);
    kani::cover!(s.len() == 0 && extra == 0, "empty payload with exact scratch");
    kani::cover!(s.len() == 3 && extra == 0, "exact fit reachable");
}
