//! Bit-at-a-time CRC from the catalogue parameters (Williams' "Painless guide" model),
//! written independently of the `crc` crate.
#![allow(dead_code)]

pub struct Params {
    pub width: u32,
    pub poly: u64,
    pub init: u64,
    pub refin: bool,
    pub refout: bool,
    pub xorout: u64,
}

fn reflect(v: u64, bits: u32) -> u64 {
    // bit i of the result = bit (bits-1-i) of v
    v.reverse_bits() >> (64 - bits)
}

pub fn crc_bitwise(p: &Params, data: &[u8]) -> u64 {
    let top = 1u64 << (p.width - 1);
    let mask = if p.width == 64 { u64::MAX } else { (1u64 << p.width) - 1 };
    let mut reg = p.init & mask;
    let mut i = 0;
    while i < data.len() {
        let byte = if p.refin { reflect(data[i] as u64, 8) } else { data[i] as u64 };
        reg ^= byte << (p.width - 8);
        let mut k = 0;
        while k < 8 {
            if reg & top != 0 {
                reg = ((reg << 1) ^ p.poly) & mask;
            } else {
                reg = (reg << 1) & mask;
            }
            k += 1;
        }
        i += 1;
    }
    if p.refout {
        reg = reflect(reg, p.width);
    }
    (reg ^ p.xorout) & mask
}

// Catalogue entries (reveng catalogue), typed in here rather than taken from crc-catalog.
pub const CRC_8_SMBUS: Params = Params { width: 8, poly: 0x07, init: 0x00, refin: false, refout: false, xorout: 0x00 };
pub const CRC_16_IBM_SDLC: Params = Params { width: 16, poly: 0x1021, init: 0xffff, refin: true, refout: true, xorout: 0xffff };
pub const CRC_16_XMODEM: Params = Params { width: 16, poly: 0x1021, init: 0x0000, refin: false, refout: false, xorout: 0x0000 };
pub const CRC_32_ISCSI: Params = Params { width: 32, poly: 0x1edc6f41, init: 0xffffffff, refin: true, refout: true, xorout: 0xffffffff };
pub const CRC_32_ISO_HDLC: Params = Params { width: 32, poly: 0x04c11db7, init: 0xffffffff, refin: true, refout: true, xorout: 0xffffffff };
pub const CRC_64_ECMA_182: Params = Params { width: 64, poly: 0x42f0e1eba9ea3693, init: 0, refin: false, refout: false, xorout: 0 };
pub const CRC_64_XZ: Params = Params { width: 64, poly: 0x42f0e1eba9ea3693, init: 0xffffffffffffffff, refin: true, refout: true, xorout: 0xffffffffffffffff };
