//! Textbook COBS (Cheshire & Baker) written independently of the `cobs` crate and of postcard.
//! Convention (the one the property's length formula implies): a block of 254 non-zero
//! bytes is always closed with code 0xFF and a new code byte is opened, even at end of message.
#![allow(dead_code)]

pub const CCAP: usize = 64;

pub struct CobsOut {
    pub b: [u8; CCAP],
    pub n: usize,
}

/// Incremental form of the textbook encoder (so that a harness can drive a concrete prefix and a
/// symbolic window through separate loops).
pub struct RefEnc<'a> {
    pub out: &'a mut [u8],
    pub code_pos: usize,
    pub code: u8,
    pub n: usize,
}
impl<'a> RefEnc<'a> {
    pub fn new(out: &'a mut [u8]) -> Self {
        // reserve the first code byte
        RefEnc { out, code_pos: 0, code: 1, n: 1 }
    }
    pub fn push(&mut self, x: u8) {
        if x == 0 {
            self.out[self.code_pos] = self.code;
            self.code_pos = self.n;
            self.n += 1;
            self.code = 1;
        } else {
            self.out[self.n] = x;
            self.n += 1;
            self.code += 1;
            if self.code == 0xFF {
                self.out[self.code_pos] = self.code;
                self.code_pos = self.n;
                self.n += 1;
                self.code = 1;
            }
        }
    }
    /// patch the last code byte; returns the encoded length (no sentinel)
    pub fn finish(self) -> usize {
        self.out[self.code_pos] = self.code;
        self.n
    }
}

/// COBS-encode `msg` into `out` (no sentinel appended); returns the encoded length.
pub fn cobs_encode_into(msg: &[u8], out: &mut [u8]) -> usize {
    let mut e = RefEnc::new(out);
    let mut i = 0;
    while i < msg.len() {
        e.push(msg[i]);
        i += 1;
    }
    e.finish()
}

/// COBS-encode `msg` (no sentinel appended).
pub fn cobs_encode(msg: &[u8]) -> CobsOut {
    let mut out = CobsOut { b: [0; CCAP], n: 0 };
    out.n = cobs_encode_into(msg, &mut out.b);
    out
}

/// Result of reference-decoding the first frame of `s`.
pub struct CobsDec {
    pub ok: bool,
    pub payload: [u8; CCAP],
    pub plen: usize,
    /// number of input bytes belonging to the frame, NOT counting the sentinel
    pub frame_len: usize,
    /// whether a 0x00 sentinel followed the frame
    pub had_sentinel: bool,
}

/// Decode the first frame (everything up to the first 0x00, or the end of `s`).
/// Ill-formed = a code byte pointing past the end of the frame.
pub fn cobs_decode_first(s: &[u8]) -> CobsDec {
    let mut r = CobsDec { ok: true, payload: [0; CCAP], plen: 0, frame_len: 0, had_sentinel: false };
    // frame = s[..z] where z is the first zero
    let mut z = 0;
    while z < s.len() && s[z] != 0 {
        z += 1;
    }
    r.frame_len = z;
    r.had_sentinel = z < s.len();
    let mut i = 0;
    while i < z {
        let code = s[i] as usize; // non-zero
        i += 1;
        if i + (code - 1) > z {
            r.ok = false;
            return r;
        }
        let mut k = 0;
        while k < code - 1 {
            r.payload[r.plen] = s[i + k];
            r.plen += 1;
            k += 1;
        }
        i += code - 1;
        if code != 0xFF && i < z {
            r.payload[r.plen] = 0;
            r.plen += 1;
        }
    }
    r
}
