//! Schema trees built from STACK nodes.
//!
//! CBMC does not constant-propagate enum discriminants through malloc'ed objects, so a recursive
//! walker over a `Box::new` tree explores all 26 match arms at every level and does not terminate
//! (DESIGN.md §3).  The trees the walkers under test receive are therefore built from locals:
//! `Box::from_raw` / `&'static` pointing at stack variables, wrapped in ManuallyDrop and never freed.
//! The pointee TYPES and every read the walker performs are the real ones; only the allocation site differs.
use core::mem::ManuallyDrop;
use postcard_schema::schema::owned::{OwnedData, OwnedDataModelType, OwnedNamedField, OwnedVariant};
use postcard_schema::schema::{Data, DataModelType, NamedField, Variant};

pub unsafe fn bx<T>(r: &mut T) -> Box<T> {
    Box::from_raw(r as *mut T)
}
pub unsafe fn bxs<T>(r: &mut [T]) -> Box<[T]> {
    Box::from_raw(r as *mut [T])
}
pub unsafe fn bxstr(r: &mut [u8]) -> Box<str> {
    Box::from_raw(core::str::from_utf8_unchecked_mut(r) as *mut str)
}
pub unsafe fn st<T: ?Sized>(r: &T) -> &'static T {
    &*(r as *const T)
}

/// A symbolic name: 0..=2 bytes of well-formed UTF-8 (ASCII and 2-byte scalars), two independent copies
/// of the same bytes (one for the borrowed tree, one for the owned tree).
pub struct Name {
    pub a: [u8; 2],
    pub b: [u8; 2],
    pub len: usize,
}
impl Name {
    #[cfg(kani)]
    pub fn any() -> Self {
        let a: [u8; 2] = kani::any();
        let len: usize = kani::any();
        kani::assume(len <= 2);
        // well-formed UTF-8 of that length: "", one ASCII, two ASCII, or one 2-byte scalar
        let ok = match len {
            0 => true,
            1 => a[0] < 0x80,
            _ => (a[0] < 0x80 && a[1] < 0x80) || (a[0] >= 0xC2 && a[0] <= 0xDF && a[1] >= 0x80 && a[1] <= 0xBF),
        };
        kani::assume(ok);
        Name { a, b: a, len }
    }
    pub fn fixed(s: &str) -> Self {
        let mut a = [0u8; 2];
        let sb = s.as_bytes();
        let mut i = 0;
        while i < sb.len() && i < 2 {
            a[i] = sb[i];
            i += 1;
        }
        Name { a, b: a, len: if sb.len() < 2 { sb.len() } else { 2 } }
    }
    pub fn borrowed(&self) -> &'static str {
        unsafe { st(core::str::from_utf8_unchecked(&self.a[..self.len])) }
    }
    pub fn owned(&mut self) -> Box<str> {
        unsafe { bxstr(&mut self.b[..self.len]) }
    }
    pub fn bytes(&self) -> &[u8] {
        &self.a[..self.len]
    }
}

pub fn same_bytes(a: &[u8], b: &[u8]) -> bool {
    if a.len() != b.len() {
        return false;
    }
    let mut i = 0;
    while i < a.len() {
        if a[i] != b[i] {
            return false;
        }
        i += 1;
    }
    true
}
