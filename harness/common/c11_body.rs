//! C11 — reader / writer transports.  Shared by three harness crates (std::io, embedded-io 0.4, 0.6).
//!
//! postcard's adapters call exactly three transport methods: `read_exact` (1 byte for pop, n bytes for
//! try_take_n), `write_all` (per block) and `flush` (once at finalize).  The environment is modelled AT
//! THAT INTERFACE: `ModelReader` / `ModelWriter` override those methods, serve each call completely or
//! fail at a symbolic byte offset after delivering/accepting a prefix, and record every call.
//! (The loops that turn short `read`/`write` calls into read_exact/write_all live in std/embedded-io
//! default methods, not in /repo; the eio crates additionally run harnesses through those defaults.)
#![allow(dead_code)]

use serde::{Deserialize, Serialize};

pub const NEVER: usize = usize::MAX;

pub struct ModelReader<'a> {
    pub data: &'a [u8],
    pub pos: usize,
    /// the transfer fails when a request would cross this absolute offset (NEVER = no failure)
    pub fail_at: usize,
    /// total bytes requested through read_exact
    pub requested: usize,
    pub calls: usize,
    /// if true, `read` delivers nondeterministically short pieces (used with the default read_exact)
    pub short_reads: bool,
}

impl<'a> ModelReader<'a> {
    pub fn new(data: &'a [u8], fail_at: usize) -> Self {
        ModelReader { data, pos: 0, fail_at, requested: 0, calls: 0, short_reads: false }
    }
    /// serve `buf` completely, or deliver the prefix that is available before the failure point and fail
    pub fn serve_exact(&mut self, buf: &mut [u8]) -> bool {
        let n = buf.len();
        self.calls += 1;
        self.requested += n;
        let limit = if self.fail_at < self.data.len() { self.fail_at } else { self.data.len() };
        let avail = if self.pos < limit { limit - self.pos } else { 0 };
        let give = if n <= avail { n } else { avail };
        let mut i = 0;
        while i < give {
            buf[i] = self.data[self.pos + i];
            i += 1;
        }
        self.pos += give;
        give == n
    }
    /// one `read` call: 1..=len bytes (nondeterministic) or 0 at end / failure point
    pub fn serve_some(&mut self, buf: &mut [u8]) -> Result<usize, ()> {
        let limit = if self.fail_at < self.data.len() { self.fail_at } else { self.data.len() };
        let avail = if self.pos < limit { limit - self.pos } else { 0 };
        if avail == 0 {
            return if self.fail_at < self.data.len() { Err(()) } else { Ok(0) };
        }
        let max = if buf.len() < avail { buf.len() } else { avail };
        if max == 0 {
            return Ok(0);
        }
        let k: usize = if self.short_reads { kani::any() } else { max };
        kani::assume(k >= 1 && k <= max);
        let mut i = 0;
        while i < k {
            buf[i] = self.data[self.pos + i];
            i += 1;
        }
        self.pos += k;
        self.requested += k;
        Ok(k)
    }
}

/// A reader that only implements `read` (nondeterministically short pieces): `read_exact` is the
/// transport crate's DEFAULT chunking loop.
pub struct ShortReader<'a>(pub ModelReader<'a>);

pub const WLOG: usize = 24;
pub struct ModelWriter {
    pub log: [u8; WLOG],
    pub n: usize,
    pub fail_at: usize,
    pub flush_fails: bool,
    pub flushes: usize,
    pub calls: usize,
}
impl ModelWriter {
    pub fn new(fail_at: usize, flush_fails: bool) -> Self {
        ModelWriter { log: [0; WLOG], n: 0, fail_at, flush_fails, flushes: 0, calls: 0 }
    }
    /// one `write` call: accepts a nondeterministic non-empty PREFIX of `b` (the Write contract allows
    /// short writes), or fails at the failure point.  postcard must never rely on `write` taking everything.
    pub fn accept_some(&mut self, b: &[u8]) -> Result<usize, ()> {
        if b.len() == 0 {
            return Ok(0);
        }
        let limit = if self.fail_at < WLOG { self.fail_at } else { WLOG };
        let room = if self.n < limit { limit - self.n } else { 0 };
        if room == 0 {
            return Err(());
        }
        let max = if b.len() <= room { b.len() } else { room };
        let k: usize = kani::any();
        kani::assume(k >= 1 && k <= max);
        let mut i = 0;
        while i < k {
            self.log[self.n + i] = b[i];
            i += 1;
        }
        self.n += k;
        Ok(k)
    }
    /// accept `b` completely, or accept the prefix that fits before the failure point and fail
    pub fn accept_all(&mut self, b: &[u8]) -> bool {
        self.calls += 1;
        let limit = if self.fail_at < WLOG { self.fail_at } else { WLOG };
        let room = if self.n < limit { limit - self.n } else { 0 };
        let take = if b.len() <= room { b.len() } else { room };
        let mut i = 0;
        while i < take {
            self.log[self.n + i] = b[i];
            i += 1;
        }
        self.n += take;
        take == b.len()
    }
}

// ---------------------------------------------------------------------------------------------
// trait impls per API
// ---------------------------------------------------------------------------------------------
#[cfg(feature = "api-std")]
mod api {
    use super::*;
    use std::io;
    impl<'a> io::Read for ModelReader<'a> {
        fn read(&mut self, buf: &mut [u8]) -> io::Result<usize> {
            self.serve_some(buf).map_err(|_| io::Error::from(io::ErrorKind::Other))
        }
        fn read_exact(&mut self, buf: &mut [u8]) -> io::Result<()> {
            if self.serve_exact(buf) {
                Ok(())
            } else {
                Err(io::Error::from(io::ErrorKind::UnexpectedEof))
            }
        }
    }
    impl io::Write for ModelWriter {
        fn write(&mut self, b: &[u8]) -> io::Result<usize> {
            self.accept_some(b).map_err(|_| io::Error::from(io::ErrorKind::Other))
        }
        fn write_all(&mut self, b: &[u8]) -> io::Result<()> {
            if self.accept_all(b) {
                Ok(())
            } else {
                Err(io::Error::from(io::ErrorKind::WriteZero))
            }
        }
        fn flush(&mut self) -> io::Result<()> {
            self.flushes += 1;
            if self.flush_fails {
                Err(io::Error::from(io::ErrorKind::Other))
            } else {
                Ok(())
            }
        }
    }
    impl<'a> io::Read for ShortReader<'a> {
        fn read(&mut self, buf: &mut [u8]) -> io::Result<usize> {
            self.0.serve_some(buf).map_err(|_| io::Error::from(io::ErrorKind::Other))
        }
    }
    pub use postcard::from_io as from_rd;
    pub use postcard::to_io as to_wr;
    pub const DEFAULT_READ_EXACT: bool = false;
}

#[cfg(feature = "api-eio04")]
mod api {
    use super::*;
    use embedded_io::blocking::{Read, ReadExactError, Write};
    use embedded_io::{ErrorKind, Io};
    impl<'a> Io for ModelReader<'a> {
        type Error = ErrorKind;
    }
    impl<'a> Read for ModelReader<'a> {
        fn read(&mut self, buf: &mut [u8]) -> Result<usize, ErrorKind> {
            self.serve_some(buf).map_err(|_| ErrorKind::Other)
        }
        #[cfg(not(feature = "default-read-exact"))]
        fn read_exact(&mut self, buf: &mut [u8]) -> Result<(), ReadExactError<ErrorKind>> {
            if self.serve_exact(buf) {
                Ok(())
            } else {
                Err(ReadExactError::UnexpectedEof)
            }
        }
    }
    impl<'a> Io for ShortReader<'a> {
        type Error = ErrorKind;
    }
    impl<'a> Read for ShortReader<'a> {
        fn read(&mut self, buf: &mut [u8]) -> Result<usize, ErrorKind> {
            self.0.serve_some(buf).map_err(|_| ErrorKind::Other)
        }
    }
    impl Io for ModelWriter {
        type Error = ErrorKind;
    }
    impl Write for ModelWriter {
        fn write(&mut self, b: &[u8]) -> Result<usize, ErrorKind> {
            self.accept_some(b).map_err(|_| ErrorKind::Other)
        }
        fn write_all(&mut self, b: &[u8]) -> Result<(), ErrorKind> {
            if self.accept_all(b) {
                Ok(())
            } else {
                Err(ErrorKind::Other)
            }
        }
        fn flush(&mut self) -> Result<(), ErrorKind> {
            self.flushes += 1;
            if self.flush_fails {
                Err(ErrorKind::Other)
            } else {
                Ok(())
            }
        }
    }
    pub use postcard::from_eio as from_rd;
    pub use postcard::to_eio as to_wr;
    pub const DEFAULT_READ_EXACT: bool = cfg!(feature = "default-read-exact");
}

#[cfg(feature = "api-eio06")]
mod api {
    use super::*;
    use embedded_io::{ErrorKind, ErrorType, Read, ReadExactError, Write};
    impl<'a> ErrorType for ModelReader<'a> {
        type Error = ErrorKind;
    }
    impl<'a> Read for ModelReader<'a> {
        fn read(&mut self, buf: &mut [u8]) -> Result<usize, ErrorKind> {
            self.serve_some(buf).map_err(|_| ErrorKind::Other)
        }
        #[cfg(not(feature = "default-read-exact"))]
        fn read_exact(&mut self, buf: &mut [u8]) -> Result<(), ReadExactError<ErrorKind>> {
            if self.serve_exact(buf) {
                Ok(())
            } else {
                Err(ReadExactError::UnexpectedEof)
            }
        }
    }
    impl<'a> ErrorType for ShortReader<'a> {
        type Error = ErrorKind;
    }
    impl<'a> Read for ShortReader<'a> {
        fn read(&mut self, buf: &mut [u8]) -> Result<usize, ErrorKind> {
            self.0.serve_some(buf).map_err(|_| ErrorKind::Other)
        }
    }
    impl ErrorType for ModelWriter {
        type Error = ErrorKind;
    }
    impl Write for ModelWriter {
        fn write(&mut self, b: &[u8]) -> Result<usize, ErrorKind> {
            self.accept_some(b).map_err(|_| ErrorKind::Other)
        }
        fn write_all(&mut self, b: &[u8]) -> Result<(), ErrorKind> {
            if self.accept_all(b) {
                Ok(())
            } else {
                Err(ErrorKind::Other)
            }
        }
        fn flush(&mut self) -> Result<(), ErrorKind> {
            self.flushes += 1;
            if self.flush_fails {
                Err(ErrorKind::Other)
            } else {
                Ok(())
            }
        }
    }
    pub use postcard::from_eio as from_rd;
    pub use postcard::to_eio as to_wr;
    pub const DEFAULT_READ_EXACT: bool = cfg!(feature = "default-read-exact");
}

pub use api::{from_rd, to_wr};

// ---------------------------------------------------------------------------------------------
// target types
// ---------------------------------------------------------------------------------------------
mod bb {
    use serde::{Deserialize, Deserializer, Serializer};
    pub fn serialize<S: Serializer>(v: &&[u8], s: S) -> Result<S::Ok, S::Error> {
        s.serialize_bytes(v)
    }
    pub fn deserialize<'de, D: Deserializer<'de>>(d: D) -> Result<&'de [u8], D::Error> {
        <&'de [u8]>::deserialize(d)
    }
}

#[derive(Serialize, Deserialize)]
pub struct NumBytes<'a>(pub u16, #[serde(with = "bb")] pub &'a [u8]);
#[derive(Serialize, Deserialize)]
pub struct TwoBytes<'a>(#[serde(with = "bb")] pub &'a [u8], #[serde(with = "bb")] pub &'a [u8]);
#[derive(Serialize, Deserialize, PartialEq, Clone, Copy)]
pub struct NamedW {
    pub a: u16,
    pub b: Option<i32>,
}

/// what a decoded value looks like to the comparison: scalar part + borrowed parts
pub trait Shape<'a>: Deserialize<'a> {
    fn scalar(&self) -> u32;
    fn borrowed(&self) -> [&'a [u8]; 2];
}
impl<'a> Shape<'a> for u16 {
    fn scalar(&self) -> u32 {
        *self as u32
    }
    fn borrowed(&self) -> [&'a [u8]; 2] {
        [&[], &[]]
    }
}
impl<'a> Shape<'a> for NumBytes<'a> {
    fn scalar(&self) -> u32 {
        self.0 as u32
    }
    fn borrowed(&self) -> [&'a [u8]; 2] {
        [self.1, &[]]
    }
}
impl<'a> Shape<'a> for TwoBytes<'a> {
    fn scalar(&self) -> u32 {
        0
    }
    fn borrowed(&self) -> [&'a [u8]; 2] {
        [self.0, self.1]
    }
}

pub fn same_bytes(a: &[u8], b: &[u8]) -> bool {
    if a.len() != b.len() {
        return false;
    }
    let mut i = 0;
    while i < a.len() {
        if a[i] != b[i] {
            return false;
        }
        i += 1;
    }
    true
}

macro_rules! reader_harness {
    ($name:ident, $ty:ident, $len:literal, $scr:literal, $unwind:literal, $short:expr) => {
        #[kani::proof]
        #[kani::unwind($unwind)]
        fn $name() {
            use $crate::c11_body::*;
            let a: [u8; $len] = kani::any();
            let n: usize = kani::any();
            kani::assume(n <= $len);
            let input = &a[..n];
            let fail_at: usize = kani::any();
            kani::assume(fail_at <= n || fail_at == NEVER);
            // scratch between two canaries
            let mut arena = [0xA5u8; $scr + 4];
            let slen: usize = kani::any();
            kani::assume(slen <= $scr);
            let (left, rest) = arena.split_at_mut(2);
            let (scratch, right) = rest.split_at_mut(slen);
            let s_lo = scratch.as_ptr() as usize;
            let s_hi = s_lo + slen;

            // reference: slice decoding of the same bytes
            let reference = postcard::take_from_bytes::<$ty>(input);
            let mut rd = ModelReader::new(input, fail_at);
            rd.short_reads = $short;
            let got = from_rd::<$ty, _>((rd, scratch));
            match (&reference, &got) {
                (Ok((rv, rrest)), Ok((gv, (rd2, unused)))) => {
                    let consumed = n - rrest.len();
                    assert!(rv.scalar() == gv.scalar(), "value differs from slice decoding");
                    let rb = rv.borrowed();
                    let gb = gv.borrowed();
                    assert!(same_bytes(rb[0], gb[0]) && same_bytes(rb[1], gb[1]), "borrowed data differs from slice decoding");
                    // exact consumption: not one byte more than the message
                    assert!(rd2.pos == consumed, "reader position is not exactly the end of the message");
                    assert!(rd2.requested == consumed, "bytes requested from the reader != bytes of the message");
                    // borrowed fields: inside scratch, in order, disjoint; unused scratch = the tail
                    let p0 = gb[0].as_ptr() as usize;
                    let p1 = gb[1].as_ptr() as usize;
                    if gb[0].len() > 0 {
                        assert!(p0 >= s_lo && p0 + gb[0].len() <= s_hi);
                    }
                    if gb[1].len() > 0 {
                        assert!(p1 >= s_lo && p1 + gb[1].len() <= s_hi);
                        assert!(gb[0].len() == 0 || p0 + gb[0].len() <= p1);
                    }
                    assert!(unused.len() == slen - gb[0].len() - gb[1].len(), "returned scratch is not the unused tail");
                    assert!(unused.as_ptr() as usize + unused.len() == s_hi);
                    // it can only have succeeded if nothing failed and the scratch sufficed
                    assert!(fail_at == NEVER || fail_at >= consumed);
                }
                (Ok((rv, rrest)), Err(_)) => {
                    // legitimate only if the transport failed inside the message or the scratch is too small
                    let consumed = n - rrest.len();
                    let rb = rv.borrowed();
                    assert!(
                        (fail_at != NEVER && fail_at < consumed) || slen < rb[0].len() + rb[1].len(),
                        "reader decoding failed although transport and scratch sufficed"
                    );
                }
                (Err(_), Err(_)) => {}
                (Err(_), Ok(_)) => assert!(false, "reader decoding accepted what slice decoding rejects"),
            }
            assert!(left[0] == 0xA5 && left[1] == 0xA5 && right[0] == 0xA5 && right[right.len() - 1] == 0xA5, "write outside the scratch buffer");
            kani::cover!(got.is_ok() && n == $len, "a full-length message decodes through the reader");
            kani::cover!(reference.is_ok() && got.is_err() && fail_at != NEVER, "a transport failure inside the message is reported");
        }
    };
}

macro_rules! two_messages_harness {
    ($name:ident, $len:literal, $unwind:literal) => {
        #[kani::proof]
        #[kani::unwind($unwind)]
        fn $name() {
            use $crate::c11_body::*;
            let a: [u8; $len] = kani::any();
            let n: usize = kani::any();
            kani::assume(n <= $len);
            let input = &a[..n];
            let mut s1 = [0u8; $len];
            let rd = ModelReader::new(input, NEVER);
            let r1 = postcard::take_from_bytes::<NumBytes>(input);
            let g1 = from_rd::<NumBytes, _>((rd, &mut s1[..]));
            if let (Ok((v1, rest1)), Ok((w1, (rd, scr)))) = (&r1, g1) {
                assert!(v1.0 == w1.0 && same_bytes(v1.1, w1.1));
                assert!(rd.pos == n - rest1.len());
                // second message continues exactly where the first ended, in the remaining scratch
                let r2 = postcard::take_from_bytes::<NumBytes>(rest1);
                let g2 = from_rd::<NumBytes, _>((rd, scr));
                match (&r2, &g2) {
                    (Ok((v2, rest2)), Ok((w2, (rd, _)))) => {
                        assert!(v2.0 == w2.0 && same_bytes(v2.1, w2.1), "second message on the stream differs");
                        assert!(rd.pos == n - rest2.len());
                    }
                    (Err(_), Err(_)) => {}
                    _ => assert!(false, "second message: reader and slice decoding disagree"),
                }
                kani::cover!(g2.is_ok() && w1.1.len() == 1, "two messages decoded from one stream");
            } else {
                assert!(r1.is_err(), "first message: reader failed where slice decoding succeeds");
            }
        }
    };
}

macro_rules! writer_named_harness {
    ($name:ident, $unwind:literal) => {
        #[kani::proof]
        #[kani::unwind($unwind)]
        fn $name() {
            use $crate::c11_body::*;
            let v = NamedW { a: kani::any(), b: kani::any() };
            let mut pb = [0u8; 9];
            let plain = postcard::to_slice(&v, &mut pb).unwrap();
            let n = plain.len();
            let fail_at: usize = kani::any();
            kani::assume(fail_at <= n + 1 || fail_at == NEVER);
            let flush_fails: bool = kani::any();
            let r = to_wr(&v, ModelWriter::new(fail_at, flush_fails));
            match r {
                Ok(w) => {
                    assert!(fail_at >= n && !flush_fails, "succeeded although the writer failed");
                    assert!(w.n == n, "writer did not receive exactly the plain encoding");
                    assert!(same_bytes(&w.log[..w.n], plain));
                    assert!(w.flushes == 1, "flush not called exactly once");
                }
                Err(e) => {
                    assert!(fail_at < n || flush_fails, "failed although the writer accepted everything");
                    assert!(matches!(e, postcard::Error::SerializeBufferFull));
                }
            }
            kani::cover!(n == 9 && fail_at == 8, "failure on the last byte reachable");
            kani::cover!(n == 9 && fail_at == NEVER && !flush_fails, "full success reachable");
        }
    };
}

/// a writer we keep hold of through `&mut` so that the prefix written before a failure can be inspected
macro_rules! writer_prefix_harness {
    ($name:ident, $unwind:literal) => {
        #[kani::proof]
        #[kani::unwind($unwind)]
        fn $name() {
            use $crate::c11_body::*;
            let store: [u8; 4] = kani::any();
            let bl: usize = kani::any();
            kani::assume(bl <= 4);
            let v = NumBytes(kani::any(), &store[..bl]);
            let mut pb = [0u8; 8];
            let plain = postcard::to_slice(&v, &mut pb).unwrap();
            let n = plain.len();
            let fail_at: usize = kani::any();
            kani::assume(fail_at <= n + 1 || fail_at == NEVER);
            let mut w = ModelWriter::new(fail_at, false);
            let ok = to_wr(&v, &mut w).is_ok();
            assert!(ok == (fail_at >= n));
            // on success everything, on failure only a prefix (never beyond the failure point) was written
            assert!(w.n <= n && (fail_at == NEVER || w.n <= fail_at));
            assert!(same_bytes(&w.log[..w.n], &plain[..w.n]), "what reached the writer is not a prefix of the plain encoding");
            if ok {
                assert!(w.n == n && w.flushes == 1);
            }
            kani::cover!(!ok && w.n > 0, "a non-empty prefix written before the failure");
            kani::cover!(ok && bl == 4, "block write path reachable");
        }
    };
}

/// Reader through the transport crate's default `read_exact` loop with nondeterministic short reads.
macro_rules! short_reader_harness {
    ($name:ident, $ty:ident, $len:literal, $unwind:literal) => {
        #[kani::proof]
        #[kani::unwind($unwind)]
        fn $name() {
            use $crate::c11_body::*;
            let a: [u8; $len] = kani::any();
            let n: usize = kani::any();
            kani::assume(n <= $len);
            let input = &a[..n];
            let mut scratch = [0u8; $len];
            let reference = postcard::take_from_bytes::<$ty>(input);
            let mut m = ModelReader::new(input, NEVER);
            m.short_reads = true;
            let got = from_rd::<$ty, _>((ShortReader(m), &mut scratch[..]));
            match (&reference, &got) {
                (Ok((rv, rrest)), Ok((gv, (rd2, _unused)))) => {
                    assert!(rv.scalar() == gv.scalar(), "value differs from slice decoding");
                    let rb = rv.borrowed();
                    let gb = gv.borrowed();
                    assert!(same_bytes(rb[0], gb[0]) && same_bytes(rb[1], gb[1]), "borrowed data differs from slice decoding");
                    assert!(rd2.0.pos == n - rrest.len(), "reader consumed more or less than the message");
                }
                (Err(_), Err(_)) => {}
                _ => assert!(false, "short reads change the outcome"),
            }
            kani::cover!(got.is_ok() && n == $len, "a full-length message decodes through short reads");
        }
    };
}
