//! Reference encoder / decoder primitives written from `spec/src/wire-format.md`
//! (NOT from postcard's code).  No heap, fixed arrays, CBMC-friendly.
//!
//! * `SpecSer`  — a `serde::Serializer` that writes the wire format into a fixed array.
//! * `Rd`       — decoding primitives over `(&[u8], pos)` returning a value or an error *kind*.
#![allow(dead_code)]

use serde::ser::{self, Serialize};

pub const CAP: usize = 48;

/// Output of the reference encoder.
pub struct SpecBuf {
    pub b: [u8; CAP],
    pub n: usize,
    /// set when more than CAP bytes were produced (harness bounds keep this false)
    pub overflow: bool,
}

impl SpecBuf {
    pub fn new() -> Self {
        SpecBuf { b: [0; CAP], n: 0, overflow: false }
    }
    #[inline]
    pub fn push(&mut self, x: u8) {
        if self.n < CAP {
            self.b[self.n] = x;
            self.n += 1;
        } else {
            self.overflow = true;
        }
    }
    /// spec: "the first byte will contain the least significant seven data bits",
    /// continuation flag in the MSB, canonical = no excess bytes.
    pub fn varint(&mut self, mut v: u128) {
        loop {
            let group = (v & 0x7f) as u8; // v mod 128
            v >>= 7; // v div 128
            if v == 0 {
                self.push(group);
                return;
            }
            self.push(group | 0x80);
        }
    }
    /// zig-zag by its arithmetic definition: n >= 0 -> 2n ; n < 0 -> -2n-1 = 2*(-n-1)+1 = 2*(!n)+1
    pub fn zigzag(n: i128) -> u128 {
        if n >= 0 {
            (n as u128) << 1
        } else {
            ((!n) as u128) << 1 | 1
        }
    }
    pub fn bytes(&self) -> &[u8] {
        &self.b[..self.n]
    }
}

#[derive(Debug, PartialEq, Eq, Clone, Copy)]
pub enum SpecErr {
    LenUnknown,
    Custom,
}
impl core::fmt::Display for SpecErr {
    fn fmt(&self, _f: &mut core::fmt::Formatter<'_>) -> core::fmt::Result {
        Ok(())
    }
}
impl std::error::Error for SpecErr {}
impl ser::Error for SpecErr {
    fn custom<T: core::fmt::Display>(_m: T) -> Self {
        SpecErr::Custom
    }
}

pub struct SpecSer<'a>(pub &'a mut SpecBuf);

impl<'a, 'b> ser::Serializer for &'b mut SpecSer<'a> {
    type Ok = ();
    type Error = SpecErr;
    type SerializeSeq = Self;
    type SerializeTuple = Self;
    type SerializeTupleStruct = Self;
    type SerializeTupleVariant = Self;
    type SerializeMap = Self;
    type SerializeStruct = Self;
    type SerializeStructVariant = Self;

    fn is_human_readable(&self) -> bool {
        false
    }
    fn serialize_bool(self, v: bool) -> Result<(), SpecErr> {
        self.0.push(if v { 0x01 } else { 0x00 });
        Ok(())
    }
    fn serialize_i8(self, v: i8) -> Result<(), SpecErr> {
        self.0.push(v as u8);
        Ok(())
    }
    fn serialize_i16(self, v: i16) -> Result<(), SpecErr> {
        self.0.varint(SpecBuf::zigzag(v as i128));
        Ok(())
    }
    fn serialize_i32(self, v: i32) -> Result<(), SpecErr> {
        self.0.varint(SpecBuf::zigzag(v as i128));
        Ok(())
    }
    fn serialize_i64(self, v: i64) -> Result<(), SpecErr> {
        self.0.varint(SpecBuf::zigzag(v as i128));
        Ok(())
    }
    fn serialize_i128(self, v: i128) -> Result<(), SpecErr> {
        self.0.varint(SpecBuf::zigzag(v));
        Ok(())
    }
    fn serialize_u8(self, v: u8) -> Result<(), SpecErr> {
        self.0.push(v);
        Ok(())
    }
    fn serialize_u16(self, v: u16) -> Result<(), SpecErr> {
        self.0.varint(v as u128);
        Ok(())
    }
    fn serialize_u32(self, v: u32) -> Result<(), SpecErr> {
        self.0.varint(v as u128);
        Ok(())
    }
    fn serialize_u64(self, v: u64) -> Result<(), SpecErr> {
        self.0.varint(v as u128);
        Ok(())
    }
    fn serialize_u128(self, v: u128) -> Result<(), SpecErr> {
        self.0.varint(v);
        Ok(())
    }
    fn serialize_f32(self, v: f32) -> Result<(), SpecErr> {
        let bits = v.to_bits();
        // little-endian array of four bytes
        self.0.push(bits as u8);
        self.0.push((bits >> 8) as u8);
        self.0.push((bits >> 16) as u8);
        self.0.push((bits >> 24) as u8);
        Ok(())
    }
    fn serialize_f64(self, v: f64) -> Result<(), SpecErr> {
        let bits = v.to_bits();
        let mut i = 0;
        while i < 8 {
            self.0.push((bits >> (8 * i)) as u8);
            i += 1;
        }
        Ok(())
    }
    fn serialize_char(self, v: char) -> Result<(), SpecErr> {
        // "encoded in UTF-8 form, and encoded as a string": own UTF-8 encoder (Unicode ch.3 table 3-6)
        let c = v as u32;
        if c < 0x80 {
            self.0.varint(1);
            self.0.push(c as u8);
        } else if c < 0x800 {
            self.0.varint(2);
            self.0.push(0xC0 | (c >> 6) as u8);
            self.0.push(0x80 | (c & 0x3f) as u8);
        } else if c < 0x10000 {
            self.0.varint(3);
            self.0.push(0xE0 | (c >> 12) as u8);
            self.0.push(0x80 | ((c >> 6) & 0x3f) as u8);
            self.0.push(0x80 | (c & 0x3f) as u8);
        } else {
            self.0.varint(4);
            self.0.push(0xF0 | (c >> 18) as u8);
            self.0.push(0x80 | ((c >> 12) & 0x3f) as u8);
            self.0.push(0x80 | ((c >> 6) & 0x3f) as u8);
            self.0.push(0x80 | (c & 0x3f) as u8);
        }
        Ok(())
    }
    fn serialize_str(self, v: &str) -> Result<(), SpecErr> {
        let b = v.as_bytes();
        self.0.varint(b.len() as u128);
        let mut i = 0;
        while i < b.len() {
            self.0.push(b[i]);
            i += 1;
        }
        Ok(())
    }
    fn serialize_bytes(self, v: &[u8]) -> Result<(), SpecErr> {
        self.0.varint(v.len() as u128);
        let mut i = 0;
        while i < v.len() {
            self.0.push(v[i]);
            i += 1;
        }
        Ok(())
    }
    fn serialize_none(self) -> Result<(), SpecErr> {
        self.0.push(0x00);
        Ok(())
    }
    fn serialize_some<T: ?Sized + Serialize>(self, value: &T) -> Result<(), SpecErr> {
        self.0.push(0x01);
        value.serialize(self)
    }
    fn serialize_unit(self) -> Result<(), SpecErr> {
        Ok(())
    }
    fn serialize_unit_struct(self, _name: &'static str) -> Result<(), SpecErr> {
        Ok(())
    }
    fn serialize_unit_variant(self, _n: &'static str, idx: u32, _v: &'static str) -> Result<(), SpecErr> {
        self.0.varint(idx as u128);
        Ok(())
    }
    fn serialize_newtype_struct<T: ?Sized + Serialize>(self, _n: &'static str, value: &T) -> Result<(), SpecErr> {
        value.serialize(self)
    }
    fn serialize_newtype_variant<T: ?Sized + Serialize>(
        self,
        _n: &'static str,
        idx: u32,
        _v: &'static str,
        value: &T,
    ) -> Result<(), SpecErr> {
        self.0.varint(idx as u128);
        value.serialize(self)
    }
    fn serialize_seq(self, len: Option<usize>) -> Result<Self, SpecErr> {
        match len {
            Some(l) => {
                self.0.varint(l as u128);
                Ok(self)
            }
            None => Err(SpecErr::LenUnknown),
        }
    }
    fn serialize_tuple(self, _len: usize) -> Result<Self, SpecErr> {
        Ok(self)
    }
    fn serialize_tuple_struct(self, _n: &'static str, _len: usize) -> Result<Self, SpecErr> {
        Ok(self)
    }
    fn serialize_tuple_variant(self, _n: &'static str, idx: u32, _v: &'static str, _len: usize) -> Result<Self, SpecErr> {
        self.0.varint(idx as u128);
        Ok(self)
    }
    fn serialize_map(self, len: Option<usize>) -> Result<Self, SpecErr> {
        match len {
            Some(l) => {
                self.0.varint(l as u128);
                Ok(self)
            }
            None => Err(SpecErr::LenUnknown),
        }
    }
    fn serialize_struct(self, _n: &'static str, _len: usize) -> Result<Self, SpecErr> {
        Ok(self)
    }
    fn serialize_struct_variant(self, _n: &'static str, idx: u32, _v: &'static str, _len: usize) -> Result<Self, SpecErr> {
        self.0.varint(idx as u128);
        Ok(self)
    }
    fn collect_str<T: ?Sized + core::fmt::Display>(self, _value: &T) -> Result<(), SpecErr> {
        // not used by the oracle: harnesses that test collect_str compare with serialize_str of the text
        Err(SpecErr::Custom)
    }
}

macro_rules! spec_compound {
    ($tr:ident, $f:ident $(, $key:ident)?) => {
        impl<'a, 'b> ser::$tr for &'b mut SpecSer<'a> {
            type Ok = ();
            type Error = SpecErr;
            fn $f<T: ?Sized + Serialize>(&mut self, $($key: &'static str,)? value: &T) -> Result<(), SpecErr> {
                $(let _ = $key;)?
                value.serialize(&mut **self)
            }
            fn end(self) -> Result<(), SpecErr> {
                Ok(())
            }
        }
    };
}
spec_compound!(SerializeSeq, serialize_element);
spec_compound!(SerializeTuple, serialize_element);
spec_compound!(SerializeTupleStruct, serialize_field);
spec_compound!(SerializeTupleVariant, serialize_field);
spec_compound!(SerializeStruct, serialize_field, _key);
spec_compound!(SerializeStructVariant, serialize_field, _key);

impl<'a, 'b> ser::SerializeMap for &'b mut SpecSer<'a> {
    type Ok = ();
    type Error = SpecErr;
    fn serialize_key<T: ?Sized + Serialize>(&mut self, key: &T) -> Result<(), SpecErr> {
        key.serialize(&mut **self)
    }
    fn serialize_value<T: ?Sized + Serialize>(&mut self, value: &T) -> Result<(), SpecErr> {
        value.serialize(&mut **self)
    }
    fn end(self) -> Result<(), SpecErr> {
        Ok(())
    }
}

/// Encode `v` with the reference encoder.
pub fn spec_encode<T: Serialize + ?Sized>(v: &T) -> SpecBuf {
    let mut out = SpecBuf::new();
    let r = v.serialize(&mut SpecSer(&mut out));
    assert!(r.is_ok());
    assert!(!out.overflow);
    out
}

// ---------------------------------------------------------------------------------------------
// Reference decoder primitives
// ---------------------------------------------------------------------------------------------

/// Error kinds the specification / property C03 name.
#[derive(Debug, PartialEq, Eq, Clone, Copy)]
pub enum K {
    End,
    BadVarint,
    BadBool,
    BadOption,
    BadUtf8,
    BadChar,
    /// a rejection the spec does not name (unknown variant index, container overflow…)
    Other,
}

pub struct Rd<'a> {
    pub s: &'a [u8],
    pub pos: usize,
}

impl<'a> Rd<'a> {
    pub fn new(s: &'a [u8]) -> Self {
        Rd { s, pos: 0 }
    }
    pub fn u8(&mut self) -> Result<u8, K> {
        if self.pos >= self.s.len() {
            return Err(K::End);
        }
        let b = self.s[self.pos];
        self.pos += 1;
        Ok(b)
    }
    /// varint(N) for an N of `bits` bits, per "Maximum Encoded Length" + "Canonicalization":
    /// at most ceil(bits/7) bytes; the value must fit `bits` bits; padded forms are accepted.
    pub fn varint(&mut self, bits: u32) -> Result<u128, K> {
        let max_len = (bits + 6) / 7;
        let mut val: u128 = 0;
        let mut i: u32 = 0;
        while i < max_len {
            let b = self.u8()?;
            let data = (b & 0x7f) as u128;
            // data bits land at 7*i .. 7*i+6; anything at or above `bits` exceeds the type's maximum value
            let shift = 7 * i;
            let room = bits - shift; // >= 1 because i < max_len
            if room < 7 && (data >> room) != 0 {
                // over-range; the spec's table shows these rejected. (If the continuation flag is
                // also set the encoding is over-long as well - both are "bad varint".)
                return Err(K::BadVarint);
            }
            val |= data << shift;
            if b & 0x80 == 0 {
                return Ok(val);
            }
            i += 1;
        }
        // continuation flag still set after the maximum encoded length
        Err(K::BadVarint)
    }
    pub fn unzigzag(z: u128) -> i128 {
        // inverse of: n>=0 -> 2n ; n<0 -> 2*(!n)+1
        if z & 1 == 0 {
            (z >> 1) as i128
        } else {
            !((z >> 1) as i128)
        }
    }
    pub fn bool(&mut self) -> Result<bool, K> {
        match self.u8()? {
            0 => Ok(false),
            1 => Ok(true),
            _ => Err(K::BadBool),
        }
    }
    pub fn option_tag(&mut self) -> Result<bool, K> {
        match self.u8()? {
            0 => Ok(false),
            1 => Ok(true),
            _ => Err(K::BadOption),
        }
    }
    /// varint(usize) length followed by that many raw bytes; returns (start, len)
    pub fn len_prefixed(&mut self) -> Result<(usize, usize), K> {
        let n = self.varint(64)?;
        let remaining = (self.s.len() - self.pos) as u128;
        if n > remaining {
            return Err(K::End);
        }
        let start = self.pos;
        self.pos += n as usize;
        Ok((start, n as usize))
    }
    pub fn fixed(&mut self, n: usize) -> Result<usize, K> {
        if self.s.len() - self.pos < n {
            return Err(K::End);
        }
        let start = self.pos;
        self.pos += n;
        Ok(start)
    }
}

/// Well-formed UTF-8 per Unicode Table 3-7; returns the number of scalar values, or None.
pub fn utf8_scalars(b: &[u8]) -> Option<usize> {
    let mut i = 0;
    let mut count = 0;
    while i < b.len() {
        let b0 = b[i];
        let need;
        let (lo, hi); // permitted range of the second byte
        if b0 <= 0x7F {
            need = 0;
            lo = 0;
            hi = 0;
        } else if b0 >= 0xC2 && b0 <= 0xDF {
            need = 1;
            lo = 0x80;
            hi = 0xBF;
        } else if b0 == 0xE0 {
            need = 2;
            lo = 0xA0;
            hi = 0xBF;
        } else if (b0 >= 0xE1 && b0 <= 0xEC) || b0 == 0xEE || b0 == 0xEF {
            need = 2;
            lo = 0x80;
            hi = 0xBF;
        } else if b0 == 0xED {
            need = 2;
            lo = 0x80;
            hi = 0x9F;
        } else if b0 == 0xF0 {
            need = 3;
            lo = 0x90;
            hi = 0xBF;
        } else if b0 >= 0xF1 && b0 <= 0xF3 {
            need = 3;
            lo = 0x80;
            hi = 0xBF;
        } else if b0 == 0xF4 {
            need = 3;
            lo = 0x80;
            hi = 0x8F;
        } else {
            return None;
        }
        if b.len() - i - 1 < need {
            return None;
        }
        if need >= 1 {
            let b1 = b[i + 1];
            if b1 < lo || b1 > hi {
                return None;
            }
        }
        if need >= 2 {
            let b2 = b[i + 2];
            if b2 < 0x80 || b2 > 0xBF {
                return None;
            }
        }
        if need >= 3 {
            let b3 = b[i + 3];
            if b3 < 0x80 || b3 > 0xBF {
                return None;
            }
        }
        i += need + 1;
        count += 1;
    }
    Some(count)
}

/// Decode the single scalar of a well-formed one-scalar UTF-8 string.
pub fn utf8_first_scalar(b: &[u8]) -> u32 {
    let b0 = b[0] as u32;
    if b0 < 0x80 {
        b0
    } else if b0 < 0xE0 {
        (b0 & 0x1f) << 6 | (b[1] as u32 & 0x3f)
    } else if b0 < 0xF0 {
        (b0 & 0x0f) << 12 | (b[1] as u32 & 0x3f) << 6 | (b[2] as u32 & 0x3f)
    } else {
        (b0 & 0x07) << 18 | (b[1] as u32 & 0x3f) << 12 | (b[2] as u32 & 0x3f) << 6 | (b[3] as u32 & 0x3f)
    }
}

/// Map a postcard error to the spec's error kinds.
pub fn kind_of(e: &postcard::Error) -> K {
    match e {
        postcard::Error::DeserializeUnexpectedEnd => K::End,
        postcard::Error::DeserializeBadVarint => K::BadVarint,
        postcard::Error::DeserializeBadBool => K::BadBool,
        postcard::Error::DeserializeBadOption => K::BadOption,
        postcard::Error::DeserializeBadUtf8 => K::BadUtf8,
        postcard::Error::DeserializeBadChar => K::BadChar,
        _ => K::Other,
    }
}
