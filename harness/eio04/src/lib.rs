//! C11 over embedded-io 0.4 — harness bodies live in common/c11_body.rs.
#![allow(dead_code, unused_imports, unused_macros, clippy::all)]

#[cfg(kani)]
#[macro_use]
#[path = "../../common/c11_body.rs"]
pub mod c11_body;

#[cfg(kani)]
mod c11;
