//! C17 — the dynamic (schema-driven) codec agrees with the static codec and serde_json.
//!
//! For every value v of a type T:  to_stdvec_dyn(S, json(v)) == to_slice(v)  and
//! from_slice_dyn(S, to_slice(v)) == json(v), where json = serde_json::to_value and S is T's schema
//! (leaf schemas are plain enum values; composite schemas are built from stack nodes, see arena.rs).
use crate::arena::*;
use core::mem::ManuallyDrop;
use postcard_dyn::{from_slice_dyn, to_stdvec_dyn};
use postcard_schema::schema::owned::{OwnedData, OwnedDataModelType, OwnedNamedField, OwnedVariant};
use serde::Serialize;
use serde_json::Value;

pub fn agree<T: Serialize>(v: &T, schema: &OwnedDataModelType, cap: usize) -> usize {
    let j = serde_json::to_value(v).unwrap();
    let mut buf = [0u8; 24];
    let st = postcard::to_slice(v, &mut buf[..cap]).unwrap();
    let n = st.len();
    let enc = to_stdvec_dyn(schema, &j);
    match &enc {
        Ok(d) => {
            assert!(d.len() == n, "dynamic encoding has a different length than the static encoding");
            let mut i = 0;
            while i < n {
                assert!(d[i] == st[i], "dynamic encoding differs from the static encoding");
                i += 1;
            }
        }
        Err(_) => assert!(false, "dynamic encoder rejects the serde_json form of a value of the schema's type"),
    }
    let dec = from_slice_dyn(schema, st);
    match &dec {
        Ok(back) => assert!(*back == j, "dynamic decoding differs from the serde_json form of the value"),
        Err(_) => assert!(false, "dynamic decoder rejects the static encoding"),
    }
    core::mem::forget(enc);
    core::mem::forget(dec);
    core::mem::forget(j);
    n
}

macro_rules! leaf_agrees {
    ($name:ident, $ty:ty, $kind:ident, $cap:literal, $unwind:literal, $mk:expr) => {
        #[kani::proof]
        #[kani::unwind($unwind)]
        fn $name() {
            let v: $ty = $mk;
            let n = agree(&v, &OwnedDataModelType::$kind, $cap);
            kani::cover!(n == $cap, "longest encoding reachable");
        }
    };
}

//@ tier=quick class=core cap=300 bounds="all bool values"
leaf_agrees!(c17_bool, bool, Bool, 1, 5, kani::any());
//@ tier=quick class=core cap=300 bounds="all u8 values"
leaf_agrees!(c17_u8, u8, U8, 1, 5, kani::any());
//@ tier=thorough class=core cap=300 bounds="all i8 values"
leaf_agrees!(c17_i8, i8, I8, 1, 5, kani::any());
//@ tier=quick class=core cap=600 bounds="all u16 values"
leaf_agrees!(c17_u16, u16, U16, 3, 7, kani::any());
//@ tier=quick class=core cap=600 bounds="all i16 values"
leaf_agrees!(c17_i16, i16, I16, 3, 7, kani::any());
//@ tier=quick class=core cap=600 bounds="all u32 values"
leaf_agrees!(c17_u32, u32, U32, 5, 9, kani::any());
//@ tier=thorough class=core cap=600 bounds="all i32 values"
leaf_agrees!(c17_i32, i32, I32, 5, 9, kani::any());
//@ tier=thorough class=core cap=900 bounds="all u64 values"
leaf_agrees!(c17_u64, u64, U64, 10, 14, kani::any());
//@ tier=quick class=core cap=900 bounds="all i64 values"
leaf_agrees!(c17_i64, i64, I64, 10, 14, kani::any());
//@ tier=thorough class=core cap=900 bounds="all usize values against schema kind Usize"
leaf_agrees!(c17_usize, usize, Usize, 10, 14, kani::any());
//@ tier=thorough class=core cap=900 bounds="all isize values against schema kind Isize"
leaf_agrees!(c17_isize, isize, Isize, 10, 14, kani::any());
//@ tier=thorough class=core cap=1200 bounds="u128 values within u64 range (the property's restriction)"
leaf_agrees!(c17_u128, u128, U128, 10, 23, kani::any::<u64>() as u128);
//@ tier=thorough class=core cap=1200 bounds="i128 values within i64 range"
leaf_agrees!(c17_i128, i128, I128, 10, 23, kani::any::<i64>() as i128);
//@ tier=thorough class=core cap=300 bounds="unit"
leaf_agrees!(c17_unit, (), Unit, 0, 4, ());

#[kani::proof]
#[kani::unwind(9)]
//@ tier=thorough class=best cap=1800 bounds="all finite f32 values (float conversions f32<->f64 through serde_json::Number are slow to bit-blast)"
fn c17_f32() {
    let v = f32::from_bits(kani::any());
    kani::assume(v.is_finite());
    let n = agree(&v, &OwnedDataModelType::F32, 4);
    assert!(n == 4);
    kani::cover!(v < 0.0, "negative reachable");
}

#[kani::proof]
#[kani::unwind(12)]
//@ tier=thorough class=best cap=1800 bounds="all finite f64 values"
fn c17_f64() {
    let v = f64::from_bits(kani::any());
    kani::assume(v.is_finite());
    let n = agree(&v, &OwnedDataModelType::F64, 8);
    assert!(n == 8);
    kani::cover!(v < 0.0, "negative reachable");
}

fn any_str3(store: &mut [u8; 3]) -> &str {
    *store = kani::any();
    let len: usize = kani::any();
    kani::assume(len <= 3);
    let r = core::str::from_utf8(&store[..len]);
    kani::assume(r.is_ok());
    r.unwrap()
}

#[kani::proof]
#[kani::unwind(8)]
//@ tier=thorough class=best cap=2400 bounds="every String of 0..=3 UTF-8 bytes"
fn c17_string() {
    let mut store = [0u8; 3];
    let s = any_str3(&mut store);
    let n = agree(&s, &OwnedDataModelType::String, 4);
    kani::cover!(n == 4, "longest reachable");
}

#[kani::proof]
#[kani::unwind(6)]
//@ tier=thorough class=best cap=2400 bounds="every ASCII char (serde_json String values on the heap: did not finish in 15 min)" family=char
fn c17_char_ascii() {
    let v: char = kani::any();
    kani::assume((v as u32) < 0x80);
    let n = agree(&v, &OwnedDataModelType::Char, 2);
    kani::cover!(n == 2, "reached");
}

#[kani::proof]
#[kani::unwind(8)]
//@ tier=thorough class=best cap=2400 bounds="every char below U+0800 (1- and 2-byte UTF-8)" family=char
fn c17_char() {
    let v: char = kani::any();
    kani::assume((v as u32) < 0x800);
    let n = agree(&v, &OwnedDataModelType::Char, 3);
    kani::cover!(n == 3, "2-byte scalar reachable");
}

#[kani::proof]
#[kani::unwind(8)]
//@ tier=thorough class=best cap=1800 bounds="all Option<u16> values (schema built from stack nodes)"
fn c17_option() {
    let v: Option<u16> = kani::any();
    let mut inner = ManuallyDrop::new(OwnedDataModelType::U16);
    let s = ManuallyDrop::new(OwnedDataModelType::Option(unsafe { bx(&mut *inner) }));
    let n = agree(&v, &s, 4);
    kani::cover!(n == 4, "longest reachable");
}

#[derive(Serialize)]
struct UnitS;
#[derive(Serialize)]
struct NewS(u32);

#[kani::proof]
#[kani::unwind(9)]
//@ tier=thorough class=best cap=1800 bounds="unit struct and all values of a newtype struct"
fn c17_unit_and_newtype_struct() {
    let mut nm = Name::fixed("S");
    let su = ManuallyDrop::new(OwnedDataModelType::Struct { name: nm.owned(), data: OwnedData::Unit });
    agree(&UnitS, &su, 0);
    let mut nm2 = Name::fixed("N");
    let mut inner = ManuallyDrop::new(OwnedDataModelType::U32);
    let sn = ManuallyDrop::new(OwnedDataModelType::Struct { name: nm2.owned(), data: OwnedData::Newtype(unsafe { bx(&mut *inner) }) });
    let v = NewS(kani::any());
    let n = agree(&v, &sn, 5);
    kani::cover!(n == 5, "longest reachable");
}

// ---------------------------------------------------------------------------------------------
// stretch: shallow composites (Vec<Value> / Map<String,Value> on the heap): best-effort
// ---------------------------------------------------------------------------------------------
#[kani::proof]
#[kani::unwind(8)]
//@ tier=thorough class=best cap=1800 bounds="all (u8,u16) values: tuple -> JSON array" family=tuple2
fn c17_tuple2() {
    let v: (u8, u16) = kani::any();
    let mut elems = ManuallyDrop::new([OwnedDataModelType::U8, OwnedDataModelType::U16]);
    let s = ManuallyDrop::new(OwnedDataModelType::Tuple(unsafe { bxs(&mut elems[..]) }));
    let n = agree(&v, &s, 4);
    kani::cover!(n == 4, "longest reachable");
}

#[kani::proof]
#[kani::unwind(8)]
//@ tier=thorough class=best cap=1800 bounds="all (u8,) values: serde_json gives [x]" family=tuple1
fn c17_tuple1() {
    let v: (u8,) = kani::any();
    let mut elems = ManuallyDrop::new([OwnedDataModelType::U8]);
    let s = ManuallyDrop::new(OwnedDataModelType::Tuple(unsafe { bxs(&mut elems[..]) }));
    agree(&v, &s, 1);
    kani::cover!(v.0 == 7, "reached");
}

#[kani::proof]
#[kani::unwind(8)]
//@ tier=thorough class=best cap=1800 bounds="[u8;0]: serde_json gives []" family=tuple0
fn c17_tuple0() {
    let v: [u8; 0] = [];
    let mut elems: ManuallyDrop<[OwnedDataModelType; 0]> = ManuallyDrop::new([]);
    let s = ManuallyDrop::new(OwnedDataModelType::Tuple(unsafe { bxs(&mut elems[..]) }));
    agree(&v, &s, 0);
    kani::cover!(true, "reached");
}

#[derive(Serialize)]
#[cfg_attr(kani, derive(kani::Arbitrary))]
enum E2 {
    A,
    B(u16),
}

#[kani::proof]
#[kani::unwind(8)]
//@ tier=thorough class=best cap=2400 bounds="all values of enum {A, B(u16)}: unit variant -> string, newtype variant -> one-key object" family=enum
fn c17_enum() {
    let v: E2 = kani::any();
    let mut n0 = Name::fixed("E");
    let mut na = Name::fixed("A");
    let mut nb = Name::fixed("B");
    let mut inner = ManuallyDrop::new(OwnedDataModelType::U16);
    let mut vars = ManuallyDrop::new([
        OwnedVariant { name: na.owned(), data: OwnedData::Unit },
        OwnedVariant { name: nb.owned(), data: OwnedData::Newtype(unsafe { bx(&mut *inner) }) },
    ]);
    let s = ManuallyDrop::new(OwnedDataModelType::Enum { name: n0.owned(), variants: unsafe { bxs(&mut vars[..]) } });
    let n = agree(&v, &s, 4);
    kani::cover!(n == 4, "longest reachable");
}

#[derive(Serialize)]
#[cfg_attr(kani, derive(kani::Arbitrary))]
struct P2 {
    a: u8,
    b: bool,
}

#[kani::proof]
#[kani::unwind(8)]
//@ tier=thorough class=best cap=2400 bounds="all values of struct {a:u8,b:bool}: JSON object" family=struct
fn c17_struct() {
    let v: P2 = kani::any();
    let mut n0 = Name::fixed("P");
    let mut na = Name::fixed("a");
    let mut nb = Name::fixed("b");
    let mut fields = ManuallyDrop::new([
        OwnedNamedField { name: na.owned(), ty: OwnedDataModelType::U8 },
        OwnedNamedField { name: nb.owned(), ty: OwnedDataModelType::Bool },
    ]);
    let s = ManuallyDrop::new(OwnedDataModelType::Struct { name: n0.owned(), data: OwnedData::Struct(unsafe { bxs(&mut fields[..]) }) });
    let n = agree(&v, &s, 2);
    kani::cover!(n == 2, "reached");
}

#[kani::proof]
#[kani::unwind(8)]
//@ tier=thorough class=best cap=2400 bounds="every Vec<u16> of 0..=2 elements: JSON array" family=seq
fn c17_seq() {
    let len: usize = kani::any();
    kani::assume(len <= 2);
    let mut v: Vec<u16> = Vec::with_capacity(2);
    let mut i = 0;
    while i < len {
        v.push(kani::any());
        i += 1;
    }
    let mut inner = ManuallyDrop::new(OwnedDataModelType::U16);
    let s = ManuallyDrop::new(OwnedDataModelType::Seq(unsafe { bx(&mut *inner) }));
    let n = agree(&v, &s, 7);
    kani::cover!(n == 7, "longest reachable");
    core::mem::forget(v);
}
