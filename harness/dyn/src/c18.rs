//! C18 — the dynamic codec is total on untrusted bytes, JSON and schemas.
//!
//! Decoder: one harness per schema kind (26 kinds + the 4 Data forms under Struct and Enum), the
//! schema concrete (stack nodes), EVERY byte string of 0..=5 bytes symbolic: from_slice_dyn returns
//! (CBMC: no reachable panic / todo!() / OOB).  With unwind = 7 the unwinding assertions bound every
//! decoder loop by the input length + 2 - the solver-side form of "allocation bounded by a multiple of
//! the input length" (each iteration pushes one Value); harnesses marked unwind_is=violation treat an
//! unwinding failure as that resource-bound violation.
//! Encoder: per kind, a JSON value from a small symbolic family (type-correct, near-miss, unrelated):
//! to_stdvec_dyn returns; whatever it accepts decodes under the same schema and re-encodes to the same bytes.
use crate::arena::*;
use core::mem::ManuallyDrop;
use postcard_dyn::{from_slice_dyn, to_stdvec_dyn};
use postcard_schema::schema::owned::{OwnedData, OwnedDataModelType, OwnedNamedField, OwnedVariant};
use serde_json::{Number, Value};

pub fn decode_total(s: &OwnedDataModelType) {
    let a: [u8; 5] = kani::any();
    let n: usize = kani::any();
    kani::assume(n <= 5);
    let r = from_slice_dyn(s, &a[..n]);
    kani::cover!(r.is_ok(), "some input decodes");
    kani::cover!(r.is_err(), "some input is rejected");
    core::mem::forget(r);
}

/// decode harness for kinds where every input decodes (zero-width kinds)
pub fn decode_total_always_ok(s: &OwnedDataModelType) {
    let a: [u8; 5] = kani::any();
    let n: usize = kani::any();
    kani::assume(n <= 5);
    let r = from_slice_dyn(s, &a[..n]);
    kani::cover!(r.is_ok() && n == 5, "some input decodes");
    core::mem::forget(r);
}

macro_rules! dec_leaf {
    ($name:ident, $kind:ident) => {
        #[kani::proof]
        #[kani::unwind(7)]
        fn $name() {
            decode_total(&OwnedDataModelType::$kind);
        }
    };
}

//@ tier=quick class=core cap=300 bounds="schema Bool x every byte string 0..=5"
dec_leaf!(c18_dec_bool, Bool);
//@ tier=thorough class=core cap=300 bounds="schema I8 x every byte string 0..=5"
dec_leaf!(c18_dec_i8, I8);
//@ tier=thorough class=core cap=300 bounds="schema U8 x every byte string 0..=5"
dec_leaf!(c18_dec_u8, U8);
//@ tier=thorough class=core cap=300 bounds="schema I16 x every byte string 0..=5"
dec_leaf!(c18_dec_i16, I16);
//@ tier=thorough class=core cap=300 bounds="schema I32 x every byte string 0..=5"
dec_leaf!(c18_dec_i32, I32);
//@ tier=quick class=core cap=300 bounds="schema I64 x every byte string 0..=5"
dec_leaf!(c18_dec_i64, I64);
//@ tier=quick class=core cap=600 bounds="schema I128 x every byte string 0..=5"
dec_leaf!(c18_dec_i128, I128);
//@ tier=thorough class=core cap=300 bounds="schema U16 x every byte string 0..=5"
dec_leaf!(c18_dec_u16, U16);
//@ tier=quick class=core cap=300 bounds="schema U32 x every byte string 0..=5"
dec_leaf!(c18_dec_u32, U32);
//@ tier=thorough class=core cap=300 bounds="schema U64 x every byte string 0..=5"
dec_leaf!(c18_dec_u64, U64);
//@ tier=thorough class=core cap=600 bounds="schema U128 x every byte string 0..=5"
dec_leaf!(c18_dec_u128, U128);
//@ tier=quick class=core cap=300 bounds="schema Usize (pointer-sized, arrives in received schemas) x every byte string 0..=5"
dec_leaf!(c18_dec_usize, Usize);
//@ tier=thorough class=core cap=300 bounds="schema Isize x every byte string 0..=5"
dec_leaf!(c18_dec_isize, Isize);
//@ tier=quick class=core cap=600 bounds="schema F32 x every byte string 0..=5 (NaN/inf -> error, not panic)"
dec_leaf!(c18_dec_f32, F32);
//@ tier=quick class=core cap=900 bounds="schema Char x every byte string 0..=5" family=char
dec_leaf!(c18_dec_char, Char);
//@ tier=quick class=core cap=900 bounds="schema String x every byte string 0..=5"
dec_leaf!(c18_dec_string, String);
//@ tier=thorough class=best cap=1800 bounds="schema ByteArray x every byte string 0..=5 (Vec<Value> on the heap)"
dec_leaf!(c18_dec_bytearray, ByteArray);
#[kani::proof]
#[kani::unwind(7)]
//@ tier=quick class=core cap=300 bounds="schema Schema (schema-of-schema kind) x every byte string 0..=5: an error, never a panic" family=schema
fn c18_dec_schema() {
    let a: [u8; 5] = kani::any();
    let n: usize = kani::any();
    kani::assume(n <= 5);
    let r = from_slice_dyn(&OwnedDataModelType::Schema, &a[..n]);
    kani::cover!(r.is_err() && n == 5, "returns an error");
    core::mem::forget(r);
}

#[kani::proof]
#[kani::unwind(12)]
//@ tier=thorough class=core cap=600 bounds="schema F64 x every byte string 0..=8"
fn c18_dec_f64() {
    let a: [u8; 8] = kani::any();
    let n: usize = kani::any();
    kani::assume(n <= 8);
    let r = from_slice_dyn(&OwnedDataModelType::F64, &a[..n]);
    kani::cover!(r.is_ok(), "some input decodes");
    kani::cover!(r.is_err() && n == 8, "non-finite rejected");
    core::mem::forget(r);
}

#[kani::proof]
#[kani::unwind(7)]
//@ tier=thorough class=core cap=300 bounds="schema Unit and unit struct x every byte string 0..=5"
fn c18_dec_unit() {
    decode_total_always_ok(&OwnedDataModelType::Unit);
    let mut nm = Name::fixed("S");
    let su = ManuallyDrop::new(OwnedDataModelType::Struct { name: nm.owned(), data: OwnedData::Unit });
    decode_total_always_ok(&su);
}

#[kani::proof]
#[kani::unwind(7)]
//@ tier=quick class=core cap=900 bounds="schema Option(Option(U16)) (nested options) x every byte string 0..=5"
fn c18_dec_option_nested() {
    let mut i0 = ManuallyDrop::new(OwnedDataModelType::U16);
    let mut i1 = ManuallyDrop::new(OwnedDataModelType::Option(unsafe { bx(&mut *i0) }));
    let s = ManuallyDrop::new(OwnedDataModelType::Option(unsafe { bx(&mut *i1) }));
    decode_total(&s);
}

#[kani::proof]
#[kani::unwind(7)]
//@ tier=thorough class=best cap=2400 bounds="schema Seq(U8) x every byte string 0..=5"
fn c18_dec_seq_u8() {
    let mut i0 = ManuallyDrop::new(OwnedDataModelType::U8);
    let s = ManuallyDrop::new(OwnedDataModelType::Seq(unsafe { bx(&mut *i0) }));
    decode_total(&s);
}

#[kani::proof]
#[kani::unwind(7)]
//@ tier=quick class=core cap=900 bounds="schema Seq(Unit) x every byte string 0..=3: a zero-width element makes the element loop run claimed-length times" unwind_is=violation family=seq_zero_width
fn c18_dec_seq_unit() {
    let mut i0 = ManuallyDrop::new(OwnedDataModelType::Unit);
    let s = ManuallyDrop::new(OwnedDataModelType::Seq(unsafe { bx(&mut *i0) }));
    let a: [u8; 3] = kani::any();
    let n: usize = kani::any();
    kani::assume(n <= 3);
    let r = from_slice_dyn(&s, &a[..n]);
    kani::cover!(r.is_ok(), "some input decodes");
    core::mem::forget(r);
}

#[kani::proof]
#[kani::unwind(7)]
//@ tier=thorough class=best cap=2400 bounds="schema Tuple([U8,Bool]) and Tuple([]) and Tuple([U8]) x every byte string 0..=5"
fn c18_dec_tuple() {
    let mut e2 = ManuallyDrop::new([OwnedDataModelType::U8, OwnedDataModelType::Bool]);
    let s2 = ManuallyDrop::new(OwnedDataModelType::Tuple(unsafe { bxs(&mut e2[..]) }));
    decode_total(&s2);
    let mut e0: ManuallyDrop<[OwnedDataModelType; 0]> = ManuallyDrop::new([]);
    let s0 = ManuallyDrop::new(OwnedDataModelType::Tuple(unsafe { bxs(&mut e0[..]) }));
    decode_total_always_ok(&s0);
    let mut e1 = ManuallyDrop::new([OwnedDataModelType::U8]);
    let s1 = ManuallyDrop::new(OwnedDataModelType::Tuple(unsafe { bxs(&mut e1[..]) }));
    decode_total(&s1);
}

#[kani::proof]
#[kani::unwind(7)]
//@ tier=quick class=core cap=900 bounds="schema Map{key:U8,val:U8} (non-string key) x every byte string 0..=5: error, not panic"
fn c18_dec_map_nonstring_key() {
    let mut k = ManuallyDrop::new(OwnedDataModelType::U8);
    let mut v = ManuallyDrop::new(OwnedDataModelType::U8);
    let s = ManuallyDrop::new(OwnedDataModelType::Map { key: unsafe { bx(&mut *k) }, val: unsafe { bx(&mut *v) } });
    let a: [u8; 5] = kani::any();
    let n: usize = kani::any();
    kani::assume(n <= 5);
    let r = from_slice_dyn(&s, &a[..n]);
    assert!(r.is_err());
    kani::cover!(n == 5, "reached");
    core::mem::forget(r);
}

#[kani::proof]
#[kani::unwind(7)]
//@ tier=thorough class=best cap=2400 bounds="schema Map{key:String,val:U8} x every byte string 0..=4 (BTreeMap on the heap)"
fn c18_dec_map_string_key() {
    let mut k = ManuallyDrop::new(OwnedDataModelType::String);
    let mut v = ManuallyDrop::new(OwnedDataModelType::U8);
    let s = ManuallyDrop::new(OwnedDataModelType::Map { key: unsafe { bx(&mut *k) }, val: unsafe { bx(&mut *v) } });
    let a: [u8; 4] = kani::any();
    let n: usize = kani::any();
    kani::assume(n <= 4);
    let r = from_slice_dyn(&s, &a[..n]);
    kani::cover!(r.is_ok(), "some input decodes");
    core::mem::forget(r);
}

#[kani::proof]
#[kani::unwind(7)]
//@ tier=thorough class=best cap=1800 bounds="schema Struct{Newtype(U32)} x every byte string 0..=5 (type-level Struct kind: see DESIGN.md §8)"
fn c18_dec_struct_newtype() {
    let mut nm = Name::fixed("N");
    let mut i0 = ManuallyDrop::new(OwnedDataModelType::U32);
    let s = ManuallyDrop::new(OwnedDataModelType::Struct { name: nm.owned(), data: OwnedData::Newtype(unsafe { bx(&mut *i0) }) });
    decode_total(&s);
}

#[kani::proof]
#[kani::unwind(7)]
//@ tier=thorough class=best cap=2400 bounds="schema Struct{Tuple([U8,U16])} x every byte string 0..=5"
fn c18_dec_struct_tuple() {
    let mut nm = Name::fixed("T");
    let mut e2 = ManuallyDrop::new([OwnedDataModelType::U8, OwnedDataModelType::U16]);
    let s = ManuallyDrop::new(OwnedDataModelType::Struct { name: nm.owned(), data: OwnedData::Tuple(unsafe { bxs(&mut e2[..]) }) });
    decode_total(&s);
}

#[kani::proof]
#[kani::unwind(7)]
//@ tier=thorough class=best cap=2400 bounds="schema Struct{Struct([a:U8,b:Bool])} x every byte string 0..=4"
fn c18_dec_struct_named() {
    let mut n0 = Name::fixed("P");
    let mut na = Name::fixed("a");
    let mut nb = Name::fixed("b");
    let mut fields = ManuallyDrop::new([
        OwnedNamedField { name: na.owned(), ty: OwnedDataModelType::U8 },
        OwnedNamedField { name: nb.owned(), ty: OwnedDataModelType::Bool },
    ]);
    let s = ManuallyDrop::new(OwnedDataModelType::Struct { name: n0.owned(), data: OwnedData::Struct(unsafe { bxs(&mut fields[..]) }) });
    let a: [u8; 4] = kani::any();
    let n: usize = kani::any();
    kani::assume(n <= 4);
    let r = from_slice_dyn(&s, &a[..n]);
    kani::cover!(r.is_ok(), "some input decodes");
    core::mem::forget(r);
}

#[kani::proof]
#[kani::unwind(7)]
//@ tier=thorough class=best cap=2400 bounds="schema Enum{A, B} (unit variants) x every byte string 0..=5: unknown index -> error"
fn c18_dec_enum_unit() {
    let mut n0 = Name::fixed("E");
    let mut na = Name::fixed("A");
    let mut nb = Name::fixed("B");
    let mut vars = ManuallyDrop::new([
        OwnedVariant { name: na.owned(), data: OwnedData::Unit },
        OwnedVariant { name: nb.owned(), data: OwnedData::Unit },
    ]);
    let s = ManuallyDrop::new(OwnedDataModelType::Enum { name: n0.owned(), variants: unsafe { bxs(&mut vars[..]) } });
    decode_total(&s);
}

#[kani::proof]
#[kani::unwind(7)]
//@ tier=thorough class=best cap=2400 bounds="schema Enum{A(U16)} (newtype variant -> one-key object) x every byte string 0..=4"
fn c18_dec_enum_newtype() {
    let mut n0 = Name::fixed("E");
    let mut na = Name::fixed("A");
    let mut i0 = ManuallyDrop::new(OwnedDataModelType::U16);
    let mut vars = ManuallyDrop::new([OwnedVariant { name: na.owned(), data: OwnedData::Newtype(unsafe { bx(&mut *i0) }) }]);
    let s = ManuallyDrop::new(OwnedDataModelType::Enum { name: n0.owned(), variants: unsafe { bxs(&mut vars[..]) } });
    let a: [u8; 4] = kani::any();
    let n: usize = kani::any();
    kani::assume(n <= 4);
    let r = from_slice_dyn(&s, &a[..n]);
    kani::cover!(r.is_ok(), "some input decodes");
    core::mem::forget(r);
}

// ---------------------------------------------------------------------------------------------
// encoder side
// ---------------------------------------------------------------------------------------------

/// A small symbolic family of JSON values: null, bool, u64 / i64 / finite f64 numbers, a string of
/// 0..=2 ASCII bytes, the empty array and a one-element array of a number.
pub fn any_json() -> Value {
    let sel: u8 = kani::any();
    kani::assume(sel < 8);
    match sel {
        0 => Value::Null,
        1 => Value::Bool(kani::any()),
        2 => Value::Number(Number::from(kani::any::<u64>())),
        3 => Value::Number(Number::from(kani::any::<i64>())),
        4 => {
            let f = f64::from_bits(kani::any());
            kani::assume(f.is_finite());
            Value::Number(Number::from_f64(f).unwrap())
        }
        5 => {
            let b: [u8; 2] = kani::any();
            kani::assume(b[0] < 0x80 && b[1] < 0x80);
            let l: usize = kani::any();
            kani::assume(l <= 2);
            let mut s = String::with_capacity(2);
            let mut i = 0;
            while i < l {
                s.push(b[i] as char);
                i += 1;
            }
            Value::String(s)
        }
        6 => Value::Array(Vec::new()),
        _ => {
            let mut v = Vec::with_capacity(1);
            v.push(Value::Number(Number::from(kani::any::<u64>())));
            Value::Array(v)
        }
    }
}

/// to_stdvec_dyn returns; whatever it accepts decodes under the same schema and re-encodes identically.
pub fn encode_total(s: &OwnedDataModelType) {
    let j = any_json();
    let r = to_stdvec_dyn(s, &j);
    if let Ok(bytes) = &r {
        let d = from_slice_dyn(s, &bytes[..]);
        match &d {
            Ok(j2) => {
                let r2 = to_stdvec_dyn(s, j2);
                match &r2 {
                    Ok(b2) => {
                        assert!(b2.len() == bytes.len(), "re-encoding the decoded value gives different bytes");
                        let mut i = 0;
                        while i < b2.len() {
                            assert!(b2[i] == bytes[i], "re-encoding the decoded value gives different bytes");
                            i += 1;
                        }
                    }
                    Err(_) => assert!(false, "decoded value is rejected by the encoder"),
                }
                core::mem::forget(r2);
            }
            Err(_) => assert!(false, "encoder accepted a JSON value whose bytes the decoder rejects under the same schema"),
        }
        core::mem::forget(d);
    }
    kani::cover!(r.is_ok(), "some JSON value is accepted");
    kani::cover!(r.is_err(), "some JSON value is rejected");
    core::mem::forget(r);
    core::mem::forget(j);
}

macro_rules! enc_leaf {
    ($name:ident, $kind:ident, $unwind:literal) => {
        #[kani::proof]
        #[kani::unwind($unwind)]
        fn $name() {
            encode_total(&OwnedDataModelType::$kind);
        }
    };
}
//@ tier=quick class=core cap=900 bounds="schema Bool x JSON family {null,bool,u64,i64,f64,string<=2,[],[n]}"
enc_leaf!(c18_enc_bool, Bool, 12);
//@ tier=quick class=core cap=900 bounds="schema U16 x JSON family"
enc_leaf!(c18_enc_u16, U16, 12);
//@ tier=thorough class=core cap=900 bounds="schema I32 x JSON family"
enc_leaf!(c18_enc_i32, I32, 12);
//@ tier=thorough class=core cap=1200 bounds="schema U64 x JSON family"
enc_leaf!(c18_enc_u64, U64, 12);
//@ tier=thorough class=core cap=1200 bounds="schema I128 x JSON family"
enc_leaf!(c18_enc_i128, I128, 21);
//@ tier=thorough class=core cap=1200 bounds="schema Isize x JSON family"
enc_leaf!(c18_enc_isize, Isize, 12);
//@ tier=quick class=core cap=900 bounds="schema F32 x JSON family (finite f64 that overflows f32 must not be accepted and then undecodable)" family=f32_overflow
enc_leaf!(c18_enc_f32, F32, 12);
//@ tier=thorough class=core cap=1800 bounds="schema F64 x JSON family"
enc_leaf!(c18_enc_f64, F64, 12);
//@ tier=thorough class=best cap=2400 bounds="schema String x JSON family"
enc_leaf!(c18_enc_string, String, 12);
//@ tier=thorough class=best cap=2400 bounds="schema Char x JSON family (a 2-char string is not a char)" family=char
enc_leaf!(c18_enc_char, Char, 12);
#[kani::proof]
#[kani::unwind(12)]
//@ tier=quick class=core cap=600 bounds="schema Schema x JSON family: an error, never a panic" family=schema
fn c18_enc_schema() {
    let j = any_json();
    let r = to_stdvec_dyn(&OwnedDataModelType::Schema, &j);
    kani::cover!(r.is_err(), "returns an error");
    core::mem::forget(r);
    core::mem::forget(j);
}
//@ tier=thorough class=core cap=600 bounds="schema Unit x JSON family"
enc_leaf!(c18_enc_unit, Unit, 12);
//@ tier=thorough class=best cap=2400 bounds="schema ByteArray x JSON family"
enc_leaf!(c18_enc_bytearray, ByteArray, 12);

#[kani::proof]
#[kani::unwind(12)]
//@ tier=thorough class=best cap=2400 bounds="schema Option(U16) x JSON family"
fn c18_enc_option() {
    let mut i0 = ManuallyDrop::new(OwnedDataModelType::U16);
    let s = ManuallyDrop::new(OwnedDataModelType::Option(unsafe { bx(&mut *i0) }));
    encode_total(&s);
}

#[kani::proof]
#[kani::unwind(12)]
//@ tier=thorough class=best cap=2400 bounds="schema Seq(U8) x JSON family"
fn c18_enc_seq() {
    let mut i0 = ManuallyDrop::new(OwnedDataModelType::U8);
    let s = ManuallyDrop::new(OwnedDataModelType::Seq(unsafe { bx(&mut *i0) }));
    encode_total(&s);
}

#[kani::proof]
#[kani::unwind(12)]
//@ tier=thorough class=best cap=2400 bounds="schema Enum{A,B} x JSON family"
fn c18_enc_enum_unit() {
    let mut n0 = Name::fixed("E");
    let mut na = Name::fixed("A");
    let mut nb = Name::fixed("B");
    let mut vars = ManuallyDrop::new([
        OwnedVariant { name: na.owned(), data: OwnedData::Unit },
        OwnedVariant { name: nb.owned(), data: OwnedData::Unit },
    ]);
    let s = ManuallyDrop::new(OwnedDataModelType::Enum { name: n0.owned(), variants: unsafe { bxs(&mut vars[..]) } });
    encode_total(&s);
}

#[kani::proof]
#[kani::unwind(12)]
//@ tier=thorough class=best cap=2400 bounds="schema Enum{A, B(U8)} x JSON family: a bare string naming the newtype variant must not be accepted and then undecodable"
fn c18_enc_enum_mixed() {
    let mut n0 = Name::fixed("E");
    let mut na = Name::fixed("A");
    let mut nb = Name::fixed("B");
    let mut i0 = ManuallyDrop::new(OwnedDataModelType::U8);
    let mut vars = ManuallyDrop::new([
        OwnedVariant { name: na.owned(), data: OwnedData::Unit },
        OwnedVariant { name: nb.owned(), data: OwnedData::Newtype(unsafe { bx(&mut *i0) }) },
    ]);
    let s = ManuallyDrop::new(OwnedDataModelType::Enum { name: n0.owned(), variants: unsafe { bxs(&mut vars[..]) } });
    encode_total(&s);
}

#[kani::proof]
#[kani::unwind(13)]
//@ tier=thorough class=best cap=2400 bounds="schema Seq(U8) x every byte string 0..=11 whose length prefix may claim up to usize::MAX elements: no capacity-overflow panic, loop bounded by the bytes present"
fn c18_dec_seq_u8_huge_claim() {
    let mut i0 = ManuallyDrop::new(OwnedDataModelType::U8);
    let s = ManuallyDrop::new(OwnedDataModelType::Seq(unsafe { bx(&mut *i0) }));
    let a: [u8; 11] = kani::any();
    let n: usize = kani::any();
    kani::assume(n <= 11);
    // a long length prefix followed by at most one element keeps the Vec<Value> small
    kani::assume(a[0] >= 0x80 && a[1] >= 0x80 && a[2] >= 0x80 && a[3] >= 0x80 && a[4] >= 0x80 && a[5] >= 0x80 && a[6] >= 0x80 && a[7] >= 0x80);
    let r = from_slice_dyn(&s, &a[..n]);
    assert!(r.is_err(), "a sequence claiming > 2^56 one-byte elements cannot be backed by 11 bytes");
    kani::cover!(n == 11, "full length reachable");
    core::mem::forget(r);
}
