//! Kani harnesses over postcard-dyn (C17, C18).
#![allow(dead_code, unused_imports, unused_macros, unused_mut, static_mut_refs, clippy::all)]

#[path = "../../common/arena.rs"]
pub mod arena;

#[cfg(kani)]
mod c17;
#[cfg(kani)]
mod c18;
