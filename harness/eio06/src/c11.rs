//! C11 harnesses (bodies in common/c11_body.rs).
//@ tier=thorough class=core cap=900 bounds="embedded-io 0.6: every input 0..=4 as u16 x failure offset x scratch 0..=2" stubs="model transport at read_exact"
reader_harness!(c11_eio06_reader_u16, u16, 4, 2, 8, false);
//@ tier=quick class=core cap=1800 bounds="embedded-io 0.6: every input 0..=5 as (u16,&[u8]) x failure offset x scratch 0..=4" stubs="model transport at read_exact"
reader_harness!(c11_eio06_reader_numbytes, NumBytes, 5, 4, 9, false);
//@ tier=thorough class=core cap=2400 bounds="embedded-io 0.6: every input 0..=6 as (&[u8],&[u8]) x failure offset x scratch 0..=5" stubs="model transport at read_exact"
reader_harness!(c11_eio06_reader_twobytes, TwoBytes, 6, 5, 10, false);
//@ tier=thorough class=core cap=2400 bounds="embedded-io 0.6: two messages in sequence from one stream of 0..=6 bytes" stubs="model transport at read_exact"
two_messages_harness!(c11_eio06_two_messages, 6, 10);
//@ tier=quick class=core cap=900 bounds="embedded-io 0.6: all Named values x writer failure at every offset x flush failing or not" stubs="model transport at write_all/flush"
writer_named_harness!(c11_eio06_writer_named, 13);
//@ tier=thorough class=core cap=900 bounds="embedded-io 0.6: all (u16, bytes 0..=4) x writer failure at every offset; writer passed as &mut (embedded-io's default write_all loop over write)" stubs="model transport at write/flush"
writer_prefix_harness!(c11_eio06_writer_prefix, 12);
//@ tier=thorough class=core cap=2400 bounds="embedded-io 0.6 DEFAULT read_exact loop: every input 0..=5 as (u16,&[u8]) delivered in nondeterministic short reads" stubs="Read::read = nondeterministic short pieces"
short_reader_harness!(c11_eio06_short_reads, NumBytes, 5, 9);
