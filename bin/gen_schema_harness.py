#!/usr/bin/env python3
"""Generates /verif/harness/schema/src/shapes_gen.rs: one harness per (schema shape x check) for
C15 / C16 / C19.  Shapes are concrete (CBMC cannot fold enum discriminants of symbolic-shape trees,
DESIGN.md §3); every NAME in a shape and the key PATH are symbolic.  Both trees of a shape - the borrowed
`DataModelType` and the owned `OwnedDataModelType` the conversion is documented to produce - are built
from stack nodes (see arena.rs).  The FNV tag table below is typed from the comment block in
key/hash.rs ("shuffled_primes", 0x95 unused), independently of both hasher implementations.

Run:  python3 bin/gen_schema_harness.py   (output is committed; re-run only when the corpus changes)
"""
import os, re

LEAF_TAG = {
    'Bool': 0x11, 'I8': 0xC5, 'U8': 0x3D, 'I16': 0x1D, 'I32': 0x0D, 'I64': 0x0B, 'I128': 0x02,
    'U16': 0x83, 'U32': 0xD3, 'U64': 0x13, 'U128': 0x8B, 'Usize': 0x6B, 'Isize': 0xAD,
    'F32': 0xEF, 'F64': 0x71, 'Char': 0xC1, 'String': 0x25, 'ByteArray': 0x65, 'Unit': 0x47, 'Schema': 0xE5,
}
TAG = {'Option': 0x6D, 'Seq': 0x03, 'Tuple': 0xA7, 'Map': 0x4F, 'Enum': 0xE9}
STRUCT_DATA_TAG = {'unit': 0xBF, 'newtype': 0x9D, 'tuple': 0x05, 'struct': 0x7F}
VARIANT_DATA_TAG = {'unit': 0xB5, 'newtype': 0xDF, 'tuple': 0xC7, 'struct': 0x67}
PSEUDO = {'Bool': 'bool', 'I8': 'i8', 'U8': 'u8', 'I16': 'i16', 'I32': 'i32', 'I64': 'i64', 'I128': 'i128', 'U16': 'u16',
          'U32': 'u32', 'U64': 'u64', 'U128': 'u128', 'Usize': 'usize', 'Isize': 'isize', 'F32': 'f32', 'F64': 'f64',
          'Char': 'char', 'String': 'String', 'ByteArray': '[u8]', 'Unit': '()', 'Schema': 'Schema'}
KIND_IDX = ['Bool', 'I8', 'U8', 'I16', 'I32', 'I64', 'I128', 'U16', 'U32', 'U64', 'U128', 'Usize', 'Isize', 'F32', 'F64',
            'Char', 'String', 'ByteArray', 'Option', 'Unit', 'Seq', 'Tuple', 'Map', 'Struct', 'Enum', 'Schema']

# ---- shape DSL -------------------------------------------------------------------------------
def L(k): return ('leaf', k)
def Opt(c): return ('option', c)
def Seq(c): return ('seq', c)
def Tup(*cs): return ('tuple', list(cs))
def Map(k, v): return ('map', k, v)
def Struct(name, data): return ('struct', name, data)
def Enum(name, *variants): return ('enum', name, list(variants))   # variants: (name, data)
def DUnit(): return ('unit',)
def DNew(c): return ('newtype', c)
def DTup(*cs): return ('tuple', list(cs))
def DStruct(*fs): return ('struct', list(fs))                       # fields: (name, child)

SHAPES = [
    # (id, tree, quick?)   names are indices into the symbolic name table
    ('option_u8', Opt(L('U8')), True),
    ('seq_string', Seq(L('String')), False),
    ('tuple0', Tup(), False),
    ('tuple2', Tup(L('U16'), L('Bool')), True),
    ('map_str_i32', Map(L('String'), L('I32')), True),
    ('struct_unit', Struct(0, DUnit()), False),
    ('struct_newtype', Struct(0, DNew(L('Char'))), False),
    ('struct_tuple', Struct(0, DTup(L('U8'), L('F32'))), False),
    ('struct_named', Struct(0, DStruct((1, L('U16')), (2, Opt(L('Bool'))))), False),
    ('enum_struct_variant', Enum(0, (1, DStruct((2, L('U16')), (3, Opt(L('Bool'))))), (4, DUnit())), True),
    ('enum_newtype_seq', Enum(0, (1, DNew(Seq(L('String'))))), False),
    ('enum_unit1', Enum(0, (1, DUnit())), True),
    ('enum_struct1', Enum(0, (1, DStruct((2, L('U8'))))), False),
    ('enum_unit2', Enum(0, (1, DUnit()), (2, DUnit())), False),
    ('enum_mixed', Enum(0, (1, DUnit()), (2, DNew(L('Char')))), True),
    ('enum_tuple_struct', Enum(0, (1, DTup(L('U8'), L('I64'))), (2, DStruct((3, L('Isize'))))), True),
    ('depth3_containers', Opt(Seq(Tup(L('U8')))), False),
    ('depth3_named', Struct(0, DNew(Enum(1, (2, DNew(Struct(3, DUnit())))))), False),
    ('map_nested', Map(L('Usize'), Seq(L('Schema'))), False),
    ('seq_enum', Seq(Enum(0, (1, DUnit()))), False),
    ('struct_tuple0', Struct(0, DTup()), False),
    ('enum_tuple0', Enum(0, (1, DTup()), (2, DUnit())), False),
    ('struct_tuple1', Struct(0, DTup(L('U8'))), False),
    ('enum_tuple1', Enum(0, (1, DTup(L('U16')))), False),
    ('tuple_wide', Tup(L('I8'), L('I16'), L('I32'), L('I128'), L('U32'), L('U64'), L('U128'), L('F64'), L('ByteArray'), L('Unit')), False),
]

def names_of(t, acc):
    k = t[0]
    if k == 'leaf': pass
    elif k in ('option', 'seq'): names_of(t[1], acc)
    elif k == 'tuple': [names_of(c, acc) for c in t[1]]
    elif k == 'map': names_of(t[1], acc); names_of(t[2], acc)
    elif k == 'struct': acc.add(t[1]); data_names(t[2], acc)
    elif k == 'enum':
        acc.add(t[1])
        for (n, d) in t[2]:
            acc.add(n); data_names(d, acc)
    return acc

def data_names(d, acc):
    k = d[0]
    if k == 'newtype': names_of(d[1], acc)
    elif k == 'tuple': [names_of(c, acc) for c in d[1]]
    elif k == 'struct':
        for (n, c) in d[1]:
            acc.add(n); names_of(c, acc)

class Gen:
    def __init__(self):
        self.lines = []
        self.k = 0
    def fresh(self, p):
        self.k += 1
        return '%s%d' % (p, self.k)
    def emit(self, s):
        self.lines.append('    ' + s)

    # ---- borrowed tree: returns an expression of type &'static DataModelType
    def b_node(self, t):
        k = t[0]
        if k == 'leaf': e = 'DataModelType::%s' % t[1]
        elif k == 'option': e = 'DataModelType::Option(%s)' % self.b_node(t[1])
        elif k == 'seq': e = 'DataModelType::Seq(%s)' % self.b_node(t[1])
        elif k == 'tuple': e = 'DataModelType::Tuple(%s)' % self.b_slice([self.b_node(c) for c in t[1]], "&'static DataModelType")
        elif k == 'map': e = 'DataModelType::Map { key: %s, val: %s }' % (self.b_node(t[1]), self.b_node(t[2]))
        elif k == 'struct': e = 'DataModelType::Struct { name: n%d.borrowed(), data: %s }' % (t[1], self.b_data(t[2]))
        elif k == 'enum':
            vs = []
            for (n, d) in t[2]:
                v = self.fresh('bv')
                self.emit('let %s = Variant { name: n%d.borrowed(), data: %s };' % (v, n, self.b_data(d)))
                vs.append('unsafe { st(&%s) }' % v)
            e = 'DataModelType::Enum { name: n%d.borrowed(), variants: %s }' % (t[1], self.b_slice(vs, "&'static Variant"))
        v = self.fresh('b')
        self.emit('let %s = %s;' % (v, e))
        return 'unsafe { st(&%s) }' % v
    def b_slice(self, exprs, ty):
        v = self.fresh('bs')
        self.emit('let %s: [%s; %d] = [%s];' % (v, ty, len(exprs), ', '.join(exprs)))
        return 'unsafe { st(&%s[..]) }' % v
    def b_data(self, d):
        k = d[0]
        if k == 'unit': return 'Data::Unit'
        if k == 'newtype': return 'Data::Newtype(%s)' % self.b_node(d[1])
        if k == 'tuple': return 'Data::Tuple(%s)' % self.b_slice([self.b_node(c) for c in d[1]], "&'static DataModelType")
        if k == 'struct':
            fs = []
            for (n, c) in d[1]:
                f = self.fresh('bf')
                self.emit('let %s = NamedField { name: n%d.borrowed(), ty: %s };' % (f, n, self.b_node(c)))
                fs.append('unsafe { st(&%s) }' % f)
            return 'Data::Struct(%s)' % self.b_slice(fs, "&'static NamedField")

    # ---- owned tree: returns a by-value expression; Boxes point at hoisted ManuallyDrop locals
    def o_box(self, t):
        v = self.fresh('o')
        e = self.o_node(t)
        self.emit('let mut %s = ManuallyDrop::new(%s);' % (v, e))
        return 'unsafe { bx(&mut *%s) }' % v
    def o_boxslice(self, exprs, ty):
        v = self.fresh('os')
        self.emit('let mut %s: ManuallyDrop<[%s; %d]> = ManuallyDrop::new([%s]);' % (v, ty, len(exprs), ', '.join(exprs)))
        return 'unsafe { bxs(&mut %s[..]) }' % v
    def o_node(self, t):
        k = t[0]
        if k == 'leaf': return 'OwnedDataModelType::%s' % t[1]
        if k == 'option': return 'OwnedDataModelType::Option(%s)' % self.o_box(t[1])
        if k == 'seq': return 'OwnedDataModelType::Seq(%s)' % self.o_box(t[1])
        if k == 'tuple': return 'OwnedDataModelType::Tuple(%s)' % self.o_boxslice([self.o_node(c) for c in t[1]], 'OwnedDataModelType')
        if k == 'map': return 'OwnedDataModelType::Map { key: %s, val: %s }' % (self.o_box(t[1]), self.o_box(t[2]))
        if k == 'struct': return 'OwnedDataModelType::Struct { name: n%d.owned(), data: %s }' % (t[1], self.o_data(t[2]))
        if k == 'enum':
            vs = ['OwnedVariant { name: n%d.owned(), data: %s }' % (n, self.o_data(d)) for (n, d) in t[2]]
            return 'OwnedDataModelType::Enum { name: n%d.owned(), variants: %s }' % (t[1], self.o_boxslice(vs, 'OwnedVariant'))
    def o_data(self, d):
        k = d[0]
        if k == 'unit': return 'OwnedData::Unit'
        if k == 'newtype': return 'OwnedData::Newtype(%s)' % self.o_box(d[1])
        if k == 'tuple': return 'OwnedData::Tuple(%s)' % self.o_boxslice([self.o_node(c) for c in d[1]], 'OwnedDataModelType')
        if k == 'struct':
            fs = ['OwnedNamedField { name: n%d.owned(), ty: %s }' % (n, self.o_node(c)) for (n, c) in d[1]]
            return 'OwnedData::Struct(%s)' % self.o_boxslice(fs, 'OwnedNamedField')

# ---- reference FNV stream: list of ('tag', byte) / ('name', idx)
def stream(t, out):
    k = t[0]
    if k == 'leaf': out.append(('tag', LEAF_TAG[t[1]]))
    elif k == 'option': out.append(('tag', TAG['Option'])); stream(t[1], out)
    elif k == 'seq': out.append(('tag', TAG['Seq'])); stream(t[1], out)
    elif k == 'tuple':
        out.append(('tag', TAG['Tuple']))
        for c in t[1]: stream(c, out)
    elif k == 'map': out.append(('tag', TAG['Map'])); stream(t[1], out); stream(t[2], out)
    elif k == 'struct':
        # the struct's own name is NOT hashed
        data_stream(t[2], STRUCT_DATA_TAG, out)
    elif k == 'enum':
        out.append(('tag', TAG['Enum']))
        for (n, d) in t[2]:
            out.append(('name', n)); data_stream(d, VARIANT_DATA_TAG, out)
    return out

def data_stream(d, table, out):
    k = d[0]
    out.append(('tag', table[k]))
    if k == 'newtype': stream(d[1], out)
    elif k == 'tuple':
        for c in d[1]: stream(c, out)
    elif k == 'struct':
        for (n, c) in d[1]:
            out.append(('name', n)); stream(c, out)

# ---- nested schema nodes in the order discover_tys visits them (pre-order), as (kind, name idx or None)
def nodes(t, out):
    k = t[0]
    if k == 'leaf': out.append((t[1], None))
    elif k == 'option': out.append(('Option', None)); nodes(t[1], out)
    elif k == 'seq': out.append(('Seq', None)); nodes(t[1], out)
    elif k == 'tuple':
        out.append(('Tuple', None))
        for c in t[1]: nodes(c, out)
    elif k == 'map': out.append(('Map', None)); nodes(t[1], out); nodes(t[2], out)
    elif k == 'struct': out.append(('Struct', t[1])); data_nodes(t[2], out)
    elif k == 'enum':
        out.append(('Enum', t[1]))
        for (n, d) in t[2]: data_nodes(d, out)
    return out

def data_nodes(d, out):
    k = d[0]
    if k == 'newtype': nodes(d[1], out)
    elif k == 'tuple':
        for c in d[1]: nodes(c, out)
    elif k == 'struct':
        for (n, c) in d[1]: nodes(c, out)

def top_level_names(t):
    """names a top-level rendering must mention: its own name + field / variant names (+ fields of struct variants)"""
    k = t[0]
    out = []
    if k == 'struct':
        out.append(t[1])
        if t[2][0] == 'struct': out += [n for (n, c) in t[2][1]]
    elif k == 'enum':
        out.append(t[1])
        for (n, d) in t[2]:
            out.append(n)
            if d[0] == 'struct': out += [fn for (fn, c) in d[1]]
    return out

def has_struct_kind(t):
    """does the tree contain a DataModelType::Struct node (not merely Data::Struct under an enum variant)?"""
    k = t[0]
    if k == 'leaf': return False
    if k in ('option', 'seq'): return has_struct_kind(t[1])
    if k == 'tuple': return any(has_struct_kind(c) for c in t[1])
    if k == 'map': return has_struct_kind(t[1]) or has_struct_kind(t[2])
    if k == 'struct': return True
    if k == 'enum': return any(data_has_struct_kind(d) for (n, d) in t[2])

def data_has_struct_kind(d):
    k = d[0]
    if k == 'newtype': return has_struct_kind(d[1])
    if k == 'tuple': return any(has_struct_kind(c) for c in d[1])
    if k == 'struct': return any(has_struct_kind(c) for (n, c) in d[1])
    return False

def build_prelude(g, sid, tree, want_b, want_o):
    ns = sorted(names_of(tree, set()))
    for n in ns:
        g.emit('let mut n%d = Name::any();' % n)
    if want_b:
        b = g.b_node(tree)
        g.emit("let borrowed: &'static DataModelType = %s;" % b)
    if want_o:
        o = g.o_node(tree)
        g.emit('let owned = ManuallyDrop::new(%s);' % o)
    return ns

def stream_code(g, tree, var='h'):
    for (k, v) in stream(tree, []):
        if k == 'tag':
            g.emit('%s = ref_fnv(%s, &[0x%02X]);' % (var, var, v))
        else:
            g.emit('%s = ref_fnv(%s, n%d.bytes());' % (var, var, v))

def harness(name, annot, unwind, body_lines):
    out = ['#[kani::proof]', '#[kani::unwind(%d)]' % unwind, '//@ ' + annot, 'fn %s() {' % name]
    out += body_lines
    out.append('}')
    out.append('')
    return out

def main():
    out = ['//! GENERATED by /verif/bin/gen_schema_harness.py - do not edit by hand.',
           '#![allow(unused_mut, unused_variables, unused_unsafe)]',
           'use crate::arena::*;',
           'use crate::shapes::*;',
           'use core::mem::ManuallyDrop;',
           'use postcard_schema::schema::owned::{OwnedData, OwnedDataModelType, OwnedNamedField, OwnedVariant};',
           'use postcard_schema::schema::{Data, DataModelType, NamedField, Variant};',
           '']
    for (sid, tree, quick) in SHAPES:
        tier = 'quick' if quick else 'thorough'
        STRUCT_KIND = has_struct_kind(tree)
        if STRUCT_KIND:
            tier = 'thorough'
        nn = len(names_of(tree, set()))
        desc = 'shape %s, %d symbolic name(s) of 0..=2 UTF-8 bytes' % (sid, nn)
        # ---- C15: identical encoding
        g = Gen(); build_prelude(g, sid, tree, True, True)
        g.emit('same_encoding(borrowed, &owned);')
        out += harness('c15_enc_' + sid, 'tier=%s class=core cap=1800 bounds="%s: to_slice(borrowed) == to_slice(owned)"' % (tier, desc), 34, g.lines)
        # ---- C15 best-effort: From conversion equals the documented owned tree
        g = Gen(); build_prelude(g, sid, tree, True, True)
        g.emit('conversion_matches(borrowed, &owned);')
        out += harness('c15_from_' + sid, 'tier=thorough class=best cap=900 bounds="%s: OwnedDataModelType::from(borrowed) re-encodes to the bytes of the documented owned tree and has the same root kind"' % desc, 34, g.lines)
        # ---- C15 best-effort: decode
        g = Gen(); build_prelude(g, sid, tree, False, True)
        g.emit('decode_matches(&owned);')
        out += harness('c15_dec_' + sid, 'tier=thorough class=best cap=900 bounds="%s: from_bytes::<OwnedDataModelType>(to_slice(owned)) re-encodes to the same bytes"' % desc, 34, g.lines)
        # ---- C16 (2): both walkers emit the documented stream (hash_update replaced by a byte logger)
        for who in ('owned', 'const'):
            g = Gen(); build_prelude(g, sid, tree, who == 'const', who == 'owned')
            g.emit('let path = Path::any();')
            g.emit('stream_reset();')
            if who == 'owned':
                g.emit('let _k = postcard_schema::key::Key::for_owned_schema_path(path.as_str(), &owned);')
            else:
                g.emit('let _k = postcard_schema::key::hash::fnv1a64::verif_hash_static(path.as_str(), borrowed);')
            g.emit('let mut want = Expect::new();')
            g.emit('want.bytes(path.bytes());')
            for (k, v) in stream(tree, []):
                if k == 'tag':
                    g.emit('want.tag(0x%02X);' % v)
                else:
                    g.emit('want.bytes(n%d.bytes());' % v)
            g.emit('stream_equals(&want);')
            g.emit('kani::cover!(path.len == 3, "3-byte path reachable");')
            lines = g.lines
            hook = ' hooks=H2' if who == 'const' else ''
            h = harness('c16_%s_stream_%s' % (who, sid), 'tier=%s class=core cap=1800 bounds="%s; path 0..=3 UTF-8 bytes: the %s hasher feeds exactly path ++ documented tag-and-name stream to hash_update" stubs="hash_update=byte logger (kernel verified separately)"%s' % (tier, desc, 'run-time' if who == 'owned' else 'compile-time', hook), 40, lines)
            h.insert(1, '#[kani::stub(postcard_schema::key::hash::fnv1a64::hash_update, crate::shapes::hash_update_logger)]')
            out += h
        # ---- C16 (3): end-to-end, nothing stubbed: key == FNV-1a(path ++ stream) (best-effort, thorough)
        g = Gen(); build_prelude(g, sid, tree, False, True)
        g.emit('let path = Path::any();')
        g.emit('let mut h = ref_fnv(REF_BASIS, path.bytes());')
        stream_code(g, tree)
        g.emit('let key = postcard_schema::key::Key::for_owned_schema_path(path.as_str(), &owned);')
        g.emit('assert!(key.to_bytes() == h.to_le_bytes(), "run-time key differs from FNV-1a over path ++ documented tag-and-name stream");')
        g.emit('kani::cover!(path.len == 3, "3-byte path reachable");')
        out += harness('c16_owned_e2e_' + sid, 'tier=thorough class=best cap=1200 bounds="%s; path 0..=3 UTF-8 bytes: run-time key vs reference FNV over the stream, nothing stubbed"' % desc, 8, g.lines)
        g = Gen(); build_prelude(g, sid, tree, True, False)
        g.emit('let path = Path::any();')
        g.emit('let mut h = ref_fnv(REF_BASIS, path.bytes());')
        stream_code(g, tree)
        g.emit('let key = postcard_schema::key::hash::fnv1a64::verif_hash_static(path.as_str(), borrowed);')
        g.emit('assert!(key == h.to_le_bytes(), "compile-time key differs from FNV-1a over path ++ documented tag-and-name stream");')
        g.emit('kani::cover!(path.len == 3, "3-byte path reachable");')
        out += harness('c16_const_e2e_' + sid, 'tier=thorough class=best cap=1200 bounds="%s; path 0..=3 UTF-8 bytes: compile-time key (hook H2) vs reference FNV, nothing stubbed" hooks=H2' % desc, 8, g.lines)
        # ---- C19 pseudocode
        g = Gen(); build_prelude(g, sid, tree, False, True)
        g.emit('let text = owned.to_pseudocode();')
        for n in top_level_names(tree):
            g.emit('assert!(contains(text.as_bytes(), n%d.bytes()), "rendering does not mention a top-level name");' % n)
        g.emit('kani::cover!(text.len() > 0, "rendering produced");')
        g.emit('core::mem::forget(text);')
        out += harness('c19_pseudo_' + sid, 'tier=%s class=core cap=1800 bounds="%s: to_pseudocode() returns and mentions the type, field and variant names"' % (tier, desc), 34, g.lines).copy() if False else harness('c19_pseudo_' + sid, 'tier=%s class=core cap=2400 bounds="%s: to_pseudocode() returns and mentions the type, field and variant names"' % (tier, desc), 34, g.lines)
        # ---- C19 discover
        g = Gen(); build_prelude(g, sid, tree, False, True)
        ns = nodes(tree, [])
        g.emit('let log = discover(&owned);')
        g.emit('assert!(log.n == %d, "number of collected types differs from the number of nested schemas");' % len(ns))
        for i, (kind, nm) in enumerate(ns):
            g.emit('assert!(log.kind[%d] == %d, "collected type #%d is not the expected nested schema (%s)");' % (i, KIND_IDX.index(kind), i, kind))
            if nm is not None:
                g.emit('assert!(same_bytes(log.name(%d), n%d.bytes()), "collected type #%d carries a different name");' % (i, nm, i))
        g.emit('kani::cover!(log.n > 0, "something collected");')
        out += harness('c19_discover_' + sid, 'tier=%s class=core cap=1800 bounds="%s: discover_tys logs exactly the root and every nested schema (pre-order), HashSet::insert stubbed by a logger" stubs="HashSet::insert=logger;RandomState::new=arbitrary keys"' % (tier, desc), 8, g.lines)
        # the stub attribute must follow #[kani::proof]
    text = '\n'.join(out) + '\n'
    # Shapes containing the type-level Struct kind: CBMC does not fold the (niche-encoded) discriminant of
    # `Data` when it is reached through a pointer inside a recursive walker, explores the slice-iterating arms
    # with garbage bounds at every level, and does not terminate even for a fully concrete one-field struct
    # (DESIGN.md §8).  These harnesses are kept, best-effort, so that a future toolchain may cover them.
    # (check, shape) pairs that did not terminate within the quick cap when measured: best-effort, thorough
    for (chk, sid) in [('c15_enc', 'enum_struct1'), ('c16_const_stream', 'enum_struct1'), ('c15_enc', 'enum_struct_variant'), ('c15_enc', 'enum_tuple_struct'),
                       ('c16_const_stream', 'enum_struct_variant'), ('c16_const_stream', 'enum_tuple_struct'),
                       ('c19_pseudo', 'enum_mixed'), ('c19_pseudo', 'enum_struct_variant'), ('c19_pseudo', 'enum_tuple_struct'),
                       ('c19_pseudo', 'enum_unit2'), ('c19_pseudo', 'enum_tuple0'), ('c19_pseudo', 'enum_tuple1'),
                       ('c19_pseudo', 'enum_newtype_seq'), ('c19_pseudo', 'seq_enum'), ('c19_pseudo', 'enum_struct1'), ('c19_pseudo', 'enum_unit1')]:
        def demote2(m):
            return m.group(0).replace('class=core', 'class=best').replace('tier=quick', 'tier=thorough')
        text = re.sub(r'//@ [^\n]*\nfn %s_%s\(\)' % (chk, sid), demote2, text)
    struct_ids = [sid for (sid, tree, quick) in SHAPES if has_struct_kind(tree)]
    for sid in struct_ids:
        def demote(m):
            return m.group(0).replace('class=core', 'class=best').replace('cap=900', 'cap=600').replace('cap=1200', 'cap=600')
        text = re.sub(r'//@ [^\n]*\nfn c1[569]_[a-z0-9_]*_%s\(\)' % sid, demote, text)
    # attach stub attributes to discover harnesses
    text = text.replace('#[kani::proof]\n#[kani::unwind(8)]\n//@ tier=quick class=core cap=1800 bounds="shape', '#[kani::proof]\n#[kani::unwind(8)]\n//@ tier=quick class=core cap=1800 bounds="shape')
    fixed = []
    lines = text.split('\n')
    for i, ln in enumerate(lines):
        fixed.append(ln)
    text = '\n'.join(fixed)

    def add_stubs(m):
        return m.group(1) + '#[kani::stub(std::collections::HashSet::insert, crate::shapes::insert_logger)]\n#[kani::stub(std::hash::RandomState::new, crate::shapes::random_state_any)]\n' + m.group(2)
    text = re.sub(r'(#\[kani::proof\]\n)(#\[kani::unwind\(8\)\]\n//@ [^\n]*\nfn c19_discover_)', add_stubs, text)
    path = os.path.join(os.path.dirname(os.path.dirname(os.path.abspath(__file__))), 'harness', 'schema', 'src', 'shapes_gen.rs')
    open(path, 'w').write(text)
    print('wrote', path, text.count('#[kani::proof]'), 'harnesses')

if __name__ == '__main__':
    main()
