# Read by bin/mkmanifest.
# THOROUGH_OK: properties whose thorough tier ran to completion (exit 0) on the unchanged tree; filled from measurements.
THOROUGH_OK.update(["C01","C02","C03","C04","C05","C06","C07","C08","C09","C10","C11","C12","C13","C14","C20"])
#  claim(id, DESIGN.md section, level text, level note) / na(id, reason)
COMMON_NOTE = (" Trusted base: Kani/CBMC's model of Rust (dev profile: overflow checks and debug assertions on), 64-bit LE host, "
               "serde/heapless/cobs/crc compiled in from the offline registry, kani::Arbitrary derive enumerates the corpus types. "
               "Bounds per harness are in the evidence (samples[].bounds); nothing outside them is claimed.")

claim("C01", "DESIGN.md §4 C01",
      "Bounded model checking of the real encoder/decoder pair: one SAT query per corpus type shows, for EVERY value of that type "
      "(whole domain of u16..u128/i16..i128, all f32/f64 bit patterns, every char, every &str/&[u8] up to 4 bytes, derived structs, "
      "4-form enums, nesting depth 3, heapless/alloc containers, a map type) that take_from_bytes(to_slice(v) ++ tail) returns v, "
      "the 0..=2 symbolic tail bytes and a remainder pointer exactly n bytes in; plus an entry-point matrix (5 encoders byte-identical, "
      "3 decoders correct on those bytes). A test can only sample these domains; the solver covers them completely per instantiation.",
      "Type shapes are a fixed corpus (Rust generics are checked per instantiation); strings/sequences <= 4 elements; 'any depth' only via "
      "serde's generic recursion over per-kind pairs each verified for all values." + COMMON_NOTE)
claim("C02", "DESIGN.md §4 C02",
      "Bounded model checking against an independent encoder (SpecSer) written from spec/src/wire-format.md: for every value of each corpus "
      "type the real to_slice output equals the specification's bytes (length and every byte) - canonical varints, zig-zag by its arithmetic "
      "definition, LE floats, length prefixes, option tags, u32 discriminants, nothing for unit/names/arity; usize/isize == u64/i64 encodings; "
      "serialize_seq/map(None) refused without mis-framing; collect_str (through core::fmt::write) == serialize_str of the text.",
      "Oracle SpecSer is hand-written (trusted, ~250 lines, no postcard code). Corpus and length bounds as C01; 2-byte length prefixes only for "
      "byte arrays of 126..=130 concrete bytes." + COMMON_NOTE)
claim("C03", "DESIGN.md §4 C03",
      "Bounded model checking over EVERY byte string up to L bytes (L = max varint length + 2 for each integer width; 4..8 for composites): the real "
      "take_from_bytes::<T> agrees with a reference decoder composed from spec primitives on accept/reject, value, consumed length, remainder pointer "
      "and - for the kinds the property names - the error kind; every strict prefix of every valid encoding fails with unexpected-end. "
      "This quantifies over all inputs in the bound, including over-long, over-range and padded varints, which sampling cannot.",
      "Reference decoder (spec::Rd + per-type composition) is hand-written from the spec's Canonicalization table; rejections the spec does not name "
      "(unknown variant index, container overflow) are only required to be errors." + COMMON_NOTE)
claim("C04", "DESIGN.md §4 C04",
      "Bounded model checking of totality and memory safety: for every byte string up to 6..12 bytes and each target type CBMC's own checks on the compiled "
      "code (no reachable panic/overflow, every raw-pointer dereference of de::flavors::Slice and SlidingBuffer inside a live object) hold; borrowed results lie "
      "inside the input (inside the scratch buffer for from_io), ordered and disjoint; SeqAccess::size_hint never exceeds the bytes remaining for any claimed "
      "length up to usize::MAX; owned results do not over-allocate; unwinding assertions bound every decoder loop by input length; any/identifier/ignored_any -> WontImplement.",
      "Allocation clause is checked through size_hint and result capacity, not by counting allocator calls; zero-width element sequences only with claimed length <= 6; maps not claimed for the allocation clause." + COMMON_NOTE)
claim("C05", "DESIGN.md §4 C05",
      "Bounded model checking with the capacity as a symbolic variable: for every value, every capacity 0..=len+2 and a symbolic 24-byte backing array, "
      "to_slice / to_slice_cobs / to_slice_crc16/32 succeed exactly when capacity >= complete output (reference COBS / bitwise CRC), return the reference bytes "
      "at the front, leave every other byte untouched, else Err(SerializeBufferFull); CBMC pointer checks decide 'no write outside the buffer' on both paths; "
      "heapless storage for every const capacity 0..=11; growable/Extend/Size storages agree; serialized_size exact.",
      "Outputs <= 12 bytes; types Named, E4, u32, u64, byte arrays <= 4, unit." + COMMON_NOTE)
claim("C06", "DESIGN.md §4 C06",
      "Bounded model checking against a textbook COBS encoder: every message of 0..=12 bytes over the full alphabet pushed through Cobs<Slice> (0..=8 through HVec) "
      "equals reference COBS ++ 00 with no interior zero and length n+floor(n/254)+2; values through the three COBS entry points; behaviour at the 254/508/762 "
      "boundaries with a symbolic 6-byte window after a concrete prefix; 1..=3 back-to-back frames decoded frame-at-a-time with exact remainder pointers, last sentinel present or not.",
      "Stated cut: in the long-run harnesses only the last 6 bytes are symbolic (prefix = concrete non-zero bytes, optionally one zero); 4..6 frames and runs > 768 not covered." + COMMON_NOTE)
claim("C07", "DESIGN.md §4 C07",
      "Bounded model checking over every byte string of 0..=8 bytes: from_bytes_cobs and take_from_bytes_cobs never panic or touch memory outside the buffer (CBMC checks), "
      "return DeserializeBadEncoding exactly when an independent COBS decoder finds a code byte pointing past the frame, otherwise equal the real plain decoder applied to the "
      "reference-decoded payload; the remainder starts one past the first frame's sentinel and bytes after it are unchanged.",
      "Targets u16, (u8,u8), byte array, Option<u8>; inputs <= 8 bytes (quick: 6)." + COMMON_NOTE)
claim("C08", "DESIGN.md §4 C08",
      "Inductive step decided by bounded model checking: from ANY accumulator state satisfying the invariant (idx <= N, buf[..idx] zero-free; built through the cfg hook) "
      "and ANY chunk, one feed/feed_ref call yields exactly what the stream model pending++chunk prescribes - Success/DeserError identical (value included) to from_bytes_cobs "
      "on an isolated copy of the segment, remaining == the bytes after the sentinel (pointer-exact), Consumed appends exactly, consumed++remaining == chunk - and re-establishes "
      "the invariant; new() establishes it. By induction this covers every feed history and chunking. A bounded history harness from new() through the public API cross-checks.",
      "Capacities N in {1,2,3,4,5,8}, chunk <= N+3, T in {(), u8, u16, byte array via feed_ref}; the induction argument itself is in the harness doc-comment, not machine-checked." + COMMON_NOTE)
claim("C09", "DESIGN.md §4 C09",
      "Same inductive step without the 'fits' premise: for any invariant-satisfying state and any chunk no panic / out-of-bounds index is reachable (CBMC), OverFull is returned exactly "
      "when the pending bytes plus the segment exceed N (no later than the call carrying its sentinel), idx = 0 after every sentinel and every overflow, the lexicographic progress measure "
      "(|remaining|, idx) strictly decreases for every non-empty chunk (termination of the documented loop, N >= 1); resync: from idx = 0 with arbitrary buffer contents a well-formed frame "
      "fed whole or split at any point is delivered; two-step harness through the documented loop.",
      "Capacities N in {1,2,4,5,8}; chunk <= N+3." + COMMON_NOTE)
claim("C10", "DESIGN.md §4 C10",
      "Bounded model checking against a bit-at-a-time CRC written from catalogue parameters: for all values the framed output is plain ++ LE checksum (widths 8/16/32/64 vs the bitwise "
      "reference, 128 vs the crc crate's one-shot), three storages agree, decoding returns value and tail; converse over EVERY byte string up to width+4 bytes: acceptance implies the consumed "
      "bytes end in their correct checksum; every non-zero burst no longer than the width (in transmission bit order) on a fixed-length payload, and every corruption of the checksum bytes, is rejected.",
      "Payloads <= 3 bytes (Named in thorough, best-effort); algorithms SMBUS, IBM-SDLC, XMODEM, ISCSI, ISO-HDLC, ECMA-182, XZ, CRC-82/DARC." + COMMON_NOTE)
claim("C11", "DESIGN.md §4 C11",
      "Bounded model checking with the transport as a nondeterministic environment modelled at the methods postcard calls (read_exact / write_all / flush): for every input string, failure offset "
      "(or none) and scratch length, from_io/from_eio equal take_from_bytes, request from the reader exactly the message's bytes, place borrowed fields in disjoint ordered sub-ranges of the scratch "
      "and return the unused tail, otherwise Err; two messages from one stream; writers receive exactly the plain encoding and one flush, or only a prefix and Err(SerializeBufferFull); three adapters "
      "(std::io, embedded-io 0.4, 0.6); embedded-io's and std's default read_exact loops with nondeterministic short reads in thorough.",
      "std's default write_all loop with short writes is outside (io::Error internals exceed CBMC's reach); inputs <= 6 bytes." + COMMON_NOTE)
claim("C12", "DESIGN.md §4 C12",
      "Bounded model checking over every value of each implementing type: serialized_size(v) <= POSTCARD_MAX_SIZE, with a kani::cover witness that the maximum is attained for the families "
      "the property calls tight; all scalars, NonZero*, ranges, smart pointers, references, tuples to 6, arrays, options, results, heapless Vec/String, and the workspace derive on named/tuple/unit/generic "
      "structs and enums with 1, 2, 127, 128, 129 variants; length-prefix width at capacities 127/128/16383/16384 for every length through the real prefix encoder.",
      "Capacities 127..16384 are checked as prefix + len (elements not materialised); heapless 0.7 only." + COMMON_NOTE)
claim("C13", "DESIGN.md §4 C13",
      "Bounded model checking, full value domain: for each of the 8 integer types x {le,be} a harness serialises a struct "
      "{u8, #[serde(with=fixint)] T, u8} with all three fields symbolic and the solver shows the bytes are exactly "
      "T::to_le/be_bytes between the markers and that take_from_bytes returns the value and the 1-byte symbolic tail. "
      "All 2^bits values of every width are covered by one SAT query each, which is the right level for a loop-free "
      "macro-generated adapter.",
      "Instantiations: the 16 listed; struct position fixed (middle field). serde derive's `with` plumbing is compiled in, not re-verified." + COMMON_NOTE)
claim("C20", "DESIGN.md §4 C20",
      "Bounded model checking: for all values, serialize_with_flavor through Cobs, CrcModifier<u16|u32> and CrcModifier over Cobs (the only nesting the IndexMut bound allows) over "
      "Slice / HVec / AllocVec equals the reference transformation of the plain bytes in stack order (COBS(plain ++ crc) ++ 00), undoing the layers in reverse recovers the value, and a recording "
      "user flavour - push-only and with a try_extend override - receives exactly the plain encoding in order.",
      "Values u16/u32 (Named best-effort); AllocVec stack best-effort." + COMMON_NOTE)

STRUCT_GAP = (" NOT covered: schema trees containing the type-level Struct kind - CBMC does not fold the niche-encoded Data discriminant inside "
              "the recursive walkers and does not terminate even on a concrete one-field struct (DESIGN.md §8); the four Data forms are covered under "
              "Enum variants only, so a change confined to the struct-side helpers is not detected by this check. Shapes are an enumerated corpus "
              "(CBMC cannot fold symbolic tree shapes); names are symbolic 0..=2 UTF-8 bytes; trees are built from stack nodes (arena.rs).")

claim("C14", "DESIGN.md §4 C14",
      "Bounded model checking with a lock-step checking Serializer: for every value of each corpus type the REAL Serialize call sequence is walked against the REAL T::SCHEMA - kind, "
      "field names and order, variant index/name/Data form, arity, element/key/value types - and a schema-driven reader written from the wire spec consumes to_slice(v) exactly. Corpus: every "
      "built-in impl at small parameters (ints, NonZero, floats, char, str/String/PathBuf, unit, tuples 1..6, arrays, slices/Vec, Option, Result, refs, four ranges, heapless 0.7/0.8, uuid, chrono, Key) "
      "and derived unit/newtype/tuple/named/one-field/raw-identifier/generic/lifetime/nested structs and enums with all variant forms.",
      "Type names are not compared (keys ignore them by design). Out: nalgebra (flattened schema by design), the schema types themselves (no meta-schema exists to compare with), "
      "HashMap/HashSet (RandomState needs a syscall), BTreeMap/BTreeSet best-effort, serde attributes." + COMMON_NOTE)
claim("C15", "DESIGN.md §4 C15",
      "Bounded model checking over an enumerated corpus of schema shapes (every leaf kind; Option, Seq, Tuple, Map, Enum with unit/newtype/tuple/struct variants, nested containers) with all names symbolic: "
      "to_slice(borrowed) == to_slice(owned) byte for byte, which decides that the two separately declared enums keep their variants in the same order and layout for every name; for the 20 leaf kinds also "
      "the hand-written From conversion and the declaration index on the wire. Conversion and decoding of composite shapes are best-effort harnesses (heap trees).",
      "Claimed in part." + STRUCT_GAP + " The 26-arm From conversion is decided only for the leaf arms unless the best-effort harnesses terminate." + COMMON_NOTE)
claim("C16", "DESIGN.md §4 C16",
      "Bounded model checking in three composable parts: (1) kernel - hash_update from ANY state equals the FNV-1a left fold for every byte string up to 8 bytes (cfg hook), Fnv1a64Hasher, offset basis, "
      "little-endian digest, and injectivity of one step in the byte for every state; (2) per schema shape and for every name and path, BOTH hashers feed hash_update exactly path ++ documented tag-and-name "
      "stream (hash_update replaced by a byte logger via Kani stubbing; reference tag table typed from the documentation); type names are absent from the stream; (3) the same shapes end-to-end with nothing "
      "stubbed, best-effort. (1)+(2) give key == FNV-1a-64(path ++ stream) for both constructors, hence agreement.",
      "Claimed in part." + STRUCT_GAP + " Injectivity of a step in the STATE (odd multiplier is a bijection mod 2^64) is a paper argument: the SAT back end does not decide it. "
      "Sensitivity to reordering follows from the stream changing; absence of 64-bit collisions between different streams is not claimed (FNV is not injective)." + COMMON_NOTE)
claim("C17", "DESIGN.md §4 C17",
      "Bounded model checking of agreement at the leaves, where the dynamic crate keeps private copies of varint/zig-zag: for ALL values of bool, u8..u64, i8..i64, usize/isize, u128/i128 within 64 bits, "
      "unit: to_stdvec_dyn(schema, serde_json::to_value(v)) == to_slice(v) and from_slice_dyn(schema, to_slice(v)) == to_value(v).",
      "Claimed for the integer, bool and unit leaves only: floats (f32<->f64 through serde_json::Number), char/String (heap strings), Option, structs, tuples, sequences, enums and maps need Vec<Value>/Map<String,Value> on the heap and are best-effort harnesses (listed not covered when they do not finish). "
      "serde_json is compiled in, not re-verified." + COMMON_NOTE)
claim("C18", "DESIGN.md §4 C18",
      "Bounded model checking per schema kind with every byte string of 0..=5 bytes symbolic: from_slice_dyn returns (no reachable panic/todo!/out-of-bounds) and unwinding assertions bound its loops by the input; "
      "encoder side: for a symbolic family of JSON values (null, bool, u64, i64, f64, short string, [], [n]) to_stdvec_dyn returns, and whatever it accepts decodes under the same schema and re-encodes to the same bytes.",
      "Claimed per kind: all leaf kinds incl. Char, Usize/Isize, 128-bit, Schema; nested Option; Struct{Newtype}; unit enums; non-string-keyed Map. Heap-heavy kinds (Seq, Tuple, named Struct, payload enums, string-keyed Map, ByteArray) "
      "are best-effort. Schema shape is concrete per harness; inputs <= 5 bytes. Known findings are listed in known_findings.json." + COMMON_NOTE)
claim("C19", "DESIGN.md §4 C19",
      "Bounded model checking over the C15 shape corpus with symbolic names: discover_tys returns without panicking for every kind (incl. Usize, Isize, Schema) and the collected items are exactly the root and "
      "every nested schema in pre-order (HashSet::insert replaced by a logging stub, RandomState::new by arbitrary keys - the set is the environment, the traversal the subject); to_pseudocode returns for leaves, "
      "Option, Tuple and Map shapes.",
      "Claimed in part." + STRUCT_GAP + " all_used_types() with the real HashSet is out of reach (hashbrown + SipHash); a change that consults the set's contents (e.g. de-duplication by name) is invisible to the logging stub. "
      "Rendering of enums (Vec<String>::join on the heap; the single-variant harness needs ~14 GB and is unreliable) is best-effort, so the 'mentions every name' clause is NOT decided by the quick tier." + COMMON_NOTE)
