# Read by bin/mkmanifest.  claim(id, DESIGN.md section, level text, level note) / na(id, reason)
claim("C13", "DESIGN.md §4 C13",
      "Bounded model checking, full value domain: for each of the 8 integer types x {le,be} a harness serialises a struct "
      "{u8, #[serde(with=fixint)] T, u8} with all three fields symbolic and the solver shows the bytes are exactly "
      "T::to_le/be_bytes between the markers and that take_from_bytes returns the value and the 1-byte symbolic tail. "
      "All 2^bits values of every width are covered by one SAT query each, which is the right level for a loop-free "
      "macro-generated adapter.",
      "Instantiations: the 16 listed; struct position fixed (middle field). serde derive's `with` plumbing is compiled in, not re-verified.")
for pid in ["C01","C02","C03","C04","C05","C06","C07","C08","C09","C10","C11","C12","C14","C15","C16","C17","C18","C19","C20"]:
    na(pid, "check under construction in this session (see DESIGN.md §4 for the plan); not yet claimed")
